"""C11 - Event-driven SIR with arbitrary delays equals first-passage percolation.

Families
  refine     E2: fast_nonMarkov_SIR (separate and joint callback API) against
             Dijkstra on the directed graph {u->v : delay(u,v) <= duration(u)}
             with keyed dyadic tables (F2: ties, 0, inf, delay == duration), F3
             horizons at / one ulp before / one ulp after every event time, at
             tmin and below tmin, F6 adjacency and initial-set order.
  degenerate fast_SIR's weighted / zero-rate path in its deterministic forms
             (tau=0: nobody is infected; gamma=0: nobody recovers).
  builders   nonMarkov_directed_percolate_network_with_timing and
             directed_percolate_network: node set, attributes, edge rule; law
             of directed_percolate_network's out-edge patterns; law of
             get_infected_nodes == absorption law of the SIR chain.
"""
import hashlib
import math
import os
import random

import eonsim
from eonsim import cases, framework, lawtest, simcases
from eonsim.refmodels import CTMC, canon_history, first_passage
from eonsim.seam import SEEDED, SimRandom, run_under
from eonsim.walks import V

EoN = eonsim.load_eon()
INF = float("inf")

PROPERTY = "C11"
LEVEL = "exploration"
RULE = ("refine: seeded graphs N<=10 (all label types), keyed tables over dyadic pools with 0 and inf, initial I/R sets, "
        "tmin, horizon drawn from {inf, at/just before/just after an event time of the unbounded run, tmin, below tmin}; "
        "distinct = digest of (graph, tables seed, request, horizon); non-trivial = at least one transmission beyond the "
        "initial nodes in the reference. builders: structural checks per call plus seeded law samples.")
ASSUMPTIONS = ["callbacks are pure keyed tables, so reference and code consume the same schedule",
               "histories are compared as status functions (entries sharing a time collapse to the last)",
               "law clauses (directed_percolate_network, get_infected_nodes) are statistical: exact binomial tails, total "
               "false-alarm probability <= 1e-9 per invocation"]
COMPONENTS = {"real": ["EoN.fast_nonMarkov_SIR", "EoN.fast_SIR (weighted / zero-rate path)", "EoN.myQueue",
                       "EoN.nonMarkov_directed_percolate_network_with_timing", "EoN.directed_percolate_network",
                       "EoN.get_infected_nodes", "EoN.Simulation_Investigation"],
              "stub": ["user delay/duration callbacks (keyed tables)", "random source (seeded) for the builders"]}

LAW_N = {"quick": 20000, "thorough": 200000}
LAW_CFGS = {"quick": 12, "thorough": 48}
LAW_BATCHES = 4


def plan(tier):
    if tier == "quick":
        return [("refine", 40000), ("degenerate", 3000), ("builders", 1500), ("law", LAW_CFGS[tier] * LAW_BATCHES)]
    return [("refine", 400000), ("degenerate", 20000), ("builders", 40000), ("law", LAW_CFGS[tier] * LAW_BATCHES)]


# ---------------------------------------------------------------- refine
def gen_refine(rng):
    case = simcases.gen_case(rng, "fast_nonMarkov_SIR", nmax=10, buggify=False, allow_rho=False, horizon="inf")
    case["tmax"] = INF
    case["hpolicy"] = rng.choice(["inf", "on_event", "before_event", "after_event", "at_tmin", "below_tmin", "mid"])
    case["hpick"] = rng.random()
    return case


def reference(case, tables, labels):
    spec = case["graph"]
    n = len(labels)
    from eonsim.refmodels import adjacency
    adj = adjacency(spec)
    out = [[(v, tables.sir_delay(labels[u], labels[v])) for v, _ in adj[u]] for u in range(n)]
    dur = [tables.sir_duration(labels[u]) for u in range(n)]
    return first_passage(n, out, dur, case["I0"], case["R0"], case["tmin"]) + (dur,)


def expected_histories(case, inf_time, rec_time, init, tmax):
    tmin = case["tmin"]
    n = len(inf_time)
    hs = []
    for u in range(n):
        ts, ss = [tmin], ["S"]
        if u in case["R0"]:
            hs.append(([tmin], ["R"]))
            continue
        if u in init:
            ts, ss = [tmin], ["I"]
        elif inf_time[u] < tmax:
            ts.append(inf_time[u]); ss.append("I")
        if (u in init or inf_time[u] < tmax) and rec_time[u] < tmax:
            ts.append(rec_time[u]); ss.append("R")
        hs.append(canon_history(ts, ss))
    return hs


def one_refine(case):
    G, labels = cases.build_graph(case["graph"])
    tabs = simcases.Tables(case, labels)
    inf_time, rec_time, preds, init, dur = reference(case, tabs, labels)
    tmin = case["tmin"]
    evt = sorted({t for t in inf_time + rec_time if tmin < t < INF})
    pol = case["hpolicy"]
    if pol == "inf" or (not evt and pol in ("on_event", "before_event", "after_event", "mid")):
        tmax = INF
    elif pol == "at_tmin":
        tmax = tmin
    elif pol == "below_tmin":
        tmax = tmin - 1
    else:
        e = evt[int(case["hpick"] * len(evt)) % len(evt)]
        if pol == "on_event":
            tmax = e
        elif pol == "before_event":
            tmax = math.nextafter(e, -INF)
        elif pol == "after_event":
            tmax = math.nextafter(e, INF)
        else:
            tmax = e + 0.125
    c = dict(case)
    c["tmax"] = tmax
    want = expected_histories(case, inf_time, rec_time, init, tmax)
    fin = [t for t in inf_time + rec_time if tmin <= t < min(tmax, 1e17)]
    info = {"simtime": (max(fin) - tmin) if fin else 0.0, "tmax": tmax, "nontrivial": any(inf_time[u] < INF and u not in init for u in range(len(labels))),
            "ties": len(inf_time + rec_time) - len(set(inf_time + rec_time))}
    out = []
    rf, _, _, tf = simcases.call(c, True, sim=SimRandom(SEEDED, seed=1), tables=simcases.Tables(case, labels))
    ra, _, _, ta = simcases.call(c, False, sim=SimRandom(SEEDED, seed=1), tables=simcases.Tables(case, labels))
    name = "fast_nonMarkov_SIR"
    from eonsim import sweeps as _sw
    bad = _sw.args_violation(c, tf) or _sw.args_violation(c, ta)
    if bad:
        return bad, info
    for r, mode in ((rf, "full-data"), (ra, "arrays")):
        if r.status == "exc":
            return [V("crash", "%s/exception/%s" % (name, type(r.exc).__name__),
                      "%s mode (tmax=%r): %s: %s" % (mode, tmax, type(r.exc).__name__, r.exc), c)], info
        if r.status != "done":
            return [], info
    inv = rf.value
    for u, lab in enumerate(labels):
        ts, ss = inv.node_history(lab)
        got = canon_history([float(x) for x in ts], list(ss))
        if got != want[u]:
            out.append(V("refine", "%s/history-vs-first-passage" % name,
                         "tmax=%r: node %r history %r, first-passage reference %r (inf_time=%r, duration=%r, admissible "
                         "infectors %r)" % (tmax, lab, got, want[u], inf_time[u], dur[u],
                                            sorted(labels[p] for p in preds[u])), c))
            return out, info
        if any(not x < tmax for x in ts[1:]):
            out.append(V("horizon", "%s/event-at-or-after-tmax" % name, "node %r history %r with tmax=%r" % (lab, list(ts), tmax), c))
            return out, info
    index = {lab: i for i, lab in enumerate(labels)}
    for (t, u, v) in inv.transmissions():
        if u is None:
            continue
        if index[u] not in preds[index[v]] or t != inf_time[index[v]]:
            out.append(V("infector", "%s/infector-not-on-shortest-path" % name,
                         "transmission (%r,%r,%r): admissible infectors of %r are %r at time %r"
                         % (t, u, v, v, sorted(labels[p] for p in preds[index[v]]), inf_time[index[v]]), c))
            return out, info
    # arrays mode, as a step function of time
    try:
        t, S, I, R = [list(map(float, ra.value[0]))] + [list(map(int, a)) for a in ra.value[1:]]
    except Exception as e:
        return [V("shape", "%s/shape" % name, "arrays mode returned %r" % (ra.value,), c)], info
    times = sorted({x for h in want for x in h[0]})
    for q in times:
        cnt = {"S": 0, "I": 0, "R": 0}
        for h in want:
            k = max(i for i, x in enumerate(h[0]) if x <= q)
            cnt[h[1][k]] += 1
        k = max(i for i, x in enumerate(t) if x <= q) if t and t[0] <= q else None
        row = (S[k], I[k], R[k]) if k is not None else None
        if row != (cnt["S"], cnt["I"], cnt["R"]):
            out.append(V("refine", "%s/arrays-vs-first-passage" % name,
                         "tmax=%r: at time %r arrays give %r, reference %r (t=%r S=%r I=%r R=%r)"
                         % (tmax, q, row, (cnt["S"], cnt["I"], cnt["R"]), t, S, I, R), c))
            return out, info
    if t and (t[0] != tmin or any(not x < tmax for x in t[1:]) or set(t) - set(times) - {tmin}):
        out.append(V("horizon", "%s/arrays-times" % name, "tmax=%r: arrays times %r, reference event times %r" % (tmax, t, times), c))
    return out, info


# ------------------------------------------------------------ degenerate
def one_degenerate(case):
    G, labels = cases.build_graph(case["graph"])
    kw = simcases.ic_args(case, labels)
    kw.update(tmin=case["tmin"], return_full_data=True, transmission_weight="w" if case["ew"] else None,
              recovery_weight="nw" if case["nw"] else None)
    r = run_under(simcases.make_seam(case), EoN.fast_SIR, G, case["tau"], case["gamma"], **kw)
    if r.status == "exc":
        return [V("crash", "fast_SIR/exception/%s" % type(r.exc).__name__, "%s: %s" % (type(r.exc).__name__, r.exc), case)]
    if r.status != "done":
        return []
    inv = r.value
    I0 = {labels[i] for i in case["I0"]}
    R0 = {labels[i] for i in case["R0"]}
    out = []
    for lab in labels:
        ts, ss = canon_history(*[list(x) for x in inv.node_history(lab)])
        if case["tau"] == 0 and lab not in I0 and lab not in R0 and ss != ["S"]:
            out.append(V("degenerate", "fast_SIR/tau-zero-infects", "tau=0 but %r has history %r/%r" % (lab, ts, ss), case))
            break
        if case["gamma"] == 0 and lab not in R0 and "R" in ss:
            out.append(V("degenerate", "fast_SIR/gamma-zero-recovers", "gamma=0 but %r has history %r/%r" % (lab, ts, ss), case))
            break
    if case["gamma"] == 0 and case["tau"] > 0 and not out:
        # everybody reachable from I0 through positive-weight edges avoiding R0 is eventually infected
        import networkx as nx
        H = nx.Graph()
        H.add_nodes_from(x for x in labels if x not in R0)
        for u, v, a in G.edges(data=True):
            if u in R0 or v in R0:
                continue
            if case["ew"] and not a["w"] > 0:
                continue
            H.add_edge(u, v)
        reach = set()
        for x in I0:
            reach |= nx.node_connected_component(H, x)
        got = {lab for lab in labels if "I" in inv.node_history(lab)[1]}
        if got != reach:
            out.append(V("degenerate", "fast_SIR/gamma-zero-component", "gamma=0: infected %r, component of the initial "
                         "nodes %r" % (sorted(got, key=repr), sorted(reach, key=repr)), case))
    return out


# -------------------------------------------------------------- builders
def one_builder(case, rng):
    G, labels = cases.build_graph(case["graph"])
    tabs = simcases.Tables(case, labels)
    out = []
    weights = case["bweights"]
    tabs.calls = []
    xkw = {}
    if case.get("xargs"):
        xkw = {"trans_time_args": ("T", 1), "rec_time_args": ("R", 2, None)}
        tabs.expect["trans"], tabs.expect["rec"] = ("T", 1), ("R", 2, None)
    r = run_under(SimRandom(SEEDED, seed=3), EoN.nonMarkov_directed_percolate_network_with_timing, G,
                  tabs.sir_trans_time, tabs.sir_rec_time, weights=weights, **xkw)
    if tabs.bad_args:
        from eonsim import sweeps as _sw
        return _sw.args_violation(dict(case, sim="nonMarkov_directed_percolate_network_with_timing"), tabs)
    tabs.expect.clear()
    if r.status == "done":
        # duration(u) is one value per node, delay(u,v) one per ordered neighbour pair: (possibly random)
        # user rules must be asked exactly once each
        nrec, ntr = {}, {}
        for c in tabs.calls:
            if c[0] == "rec":
                nrec[c[1]] = nrec.get(c[1], 0) + 1
            elif c[0] == "trans":
                ntr[(c[1], c[2])] = ntr.get((c[1], c[2]), 0) + 1
        badn = [u for u in labels if nrec.get(u, 0) != 1]
        bade = [(u, v) for u in labels for v in G.neighbors(u) if ntr.get((u, v), 0) != 1]
        if badn or bade:
            return [V("rule_calls", "nonMarkov_directed_percolate_network_with_timing/rules-not-asked-once",
                      "weights=%r: rec_time_fxn calls per node %r, trans_time_fxn calls per pair %r (expected exactly one each)"
                      % (weights, {repr(u): nrec.get(u, 0) for u in badn[:3]}, {repr(e): ntr.get(e, 0) for e in bade[:3]}), case)]
    if r.status != "exc" and r.status != "done":
        return []        # not under the harness's control (seam limit): never a verdict
    if r.status != "done":
        return [V("crash", "percolate_with_timing/exception", "%r" % (r,), case)]
    H = r.value
    name = "nonMarkov_directed_percolate_network_with_timing"
    if not H.is_directed() or set(H.nodes()) != set(labels) or H.number_of_nodes() != len(labels):
        return [V("builder", "%s/node-set" % name, "returned nodes %r, G has %r" % (list(H.nodes()), labels), case)]
    for u in labels:
        du = tabs.sir_duration(u)
        if weights and H.nodes[u].get("duration") != du:
            return [V("builder", "%s/duration-attr" % name, "node %r duration attr %r, rule gives %r" % (u, H.nodes[u], du), case)]
        for v in G.neighbors(u):
            d = tabs.sir_delay(u, v)
            keep = d <= du
            if H.has_edge(u, v) != keep:
                return [V("builder", "%s/edge-rule" % name, "edge %r->%r present=%r but delay %r <= duration %r is %r"
                          % (u, v, H.has_edge(u, v), d, du, keep), case)]
            if keep and weights and H.edges[u, v].get("delay_to_infection") != d:
                return [V("builder", "%s/delay-attr" % name, "edge %r->%r attrs %r, delay %r" % (u, v, H.edges[u, v], d), case)]
    extra = [e for e in H.edges() if not G.has_edge(*e)]
    if extra:
        return [V("builder", "%s/extra-edge" % name, "edges not in G: %r" % (extra,), case)]
    # directed_percolate_network under a seeded seam: structure
    sim = SimRandom(SEEDED, seed=case["seam"]["seed"])
    r = run_under(sim, EoN.directed_percolate_network, G, case["tau"], case["gamma"])
    name = "directed_percolate_network"
    if r.status != "exc" and r.status != "done":
        return []        # not under the harness's control (seam limit): never a verdict
    if r.status != "done":
        return [V("crash", "%s/exception" % name, "%r" % (r,), case)]
    H = r.value
    if not H.is_directed() or set(H.nodes()) != set(labels) or H.number_of_nodes() != len(labels):
        return [V("builder", "%s/node-set" % name, "returned nodes %r, G has %r" % (list(H.nodes()), labels), case)]
    for u, v, a in H.edges(data=True):
        if not G.has_edge(u, v):
            return [V("builder", "%s/extra-edge" % name, "edge %r->%r not in G" % (u, v), case)]
        du = H.nodes[u].get("duration")
        d = a.get("delay_to_infection")
        if du is None or d is None or not d <= du:
            return [V("builder", "%s/edge-rule" % name, "kept edge %r->%r has delay %r, duration %r" % (u, v, d, du), case)]
    for u in labels:
        if "duration" not in H.nodes[u]:
            return [V("builder", "%s/duration-attr" % name, "node %r lacks duration" % (u,), case)]
        if case["tau"] == 0 and case["gamma"] > 0 and H.out_degree(u):
            return [V("builder", "%s/tau-zero-edge" % name, "tau=0 but %r has out-edges" % (u,), case)]
        if case["gamma"] == 0 and case["tau"] > 0 and H.out_degree(u) != len(list(G.neighbors(u))):
            # neighbours, not degree: networkx counts a self-loop twice in degree()
            return [V("builder", "%s/gamma-zero-edge" % name, "gamma=0 but %r keeps %d of %d edges" % (u, H.out_degree(u), len(list(G.neighbors(u)))), case)]
    # get_infected_nodes: subset of the component of I0 avoiding R0, contains I0, excludes R0
    I0 = [labels[i] for i in case["I0"]]
    R0 = [labels[i] for i in case["R0"]]
    kw = {"initial_infecteds": I0 if len(I0) > 1 or rng.random() < 0.5 else I0[0]}
    if R0:
        kw["initial_recovereds"] = R0
    r = run_under(SimRandom(SEEDED, seed=case["seam"]["seed"] + 1), EoN.get_infected_nodes, G, case["tau"], case["gamma"], **kw)
    name = "get_infected_nodes"
    if r.status != "exc" and r.status != "done":
        return []        # not under the harness's control (seam limit): never a verdict
    if r.status != "done":
        return [V("crash", "%s/exception" % name, "%r" % (r,), case)]
    got = set(r.value)
    import networkx as nx
    Gm = G.copy()
    Gm.remove_nodes_from(R0)
    comp = set()
    for x in I0:
        comp |= nx.node_connected_component(Gm, x)
    if not set(I0) <= got or got & set(R0) or not got <= comp:
        return [V("builder", "%s/not-an-out-component" % name, "returned %r; initial %r, recovered %r, reachable part of G %r"
                  % (sorted(got, key=repr), I0, R0, sorted(comp, key=repr)), case)]
    if case["tau"] == 0 and case["gamma"] > 0 and got != set(I0):
        return [V("builder", "%s/tau-zero" % name, "tau=0 but returned %r" % (sorted(got, key=repr),), case)]
    if case["gamma"] == 0 and case["tau"] > 0 and got != comp:
        return [V("builder", "%s/gamma-zero" % name, "gamma=0 but returned %r, component %r" % (sorted(got, key=repr), sorted(comp, key=repr)), case)]
    # initial_infecteds omitted: one random node that is not initially recovered
    if len(labels) > len(R0):
        kw2 = {"initial_recovereds": R0} if R0 else {}
        r = run_under(SimRandom(SEEDED, seed=case["seam"]["seed"] + 2), EoN.get_infected_nodes, G, case["tau"], case["gamma"], **kw2)
        if r.status == "exc":
            return [V("crash", "%s/exception" % name, "initial_infecteds omitted: %r" % (r,), case)]
        if r.status == "done":
            got2 = set(r.value)
            ok = bool(got2) and not (got2 & set(R0)) and any(got2 <= nx.node_connected_component(Gm, u) for u in got2)
            if not ok:
                return [V("builder", "%s/default-seed" % name, "initial_infecteds omitted, recovered %r: returned %r"
                          % (R0, sorted(got2, key=repr)), case)]
    return out


# ------------------------------------------------------------------- law
LAW_KINDS = ["get_infected_nodes", "dir_perc", "dir_perc_noweights", "fast_sir_directed"]


def law_cfgs(seed, tier):
    out = []
    for j in range(LAW_CFGS[tier]):
        rng = random.Random(framework.derive_int(seed, PROPERTY, "lawcfg", j))
        kind = LAW_KINDS[j % len(LAW_KINDS)]
        directed = (kind == "fast_sir_directed")
        spec = cases.gen_graph(rng, 3, 5, family=rng.choice(["path", "star", "cycle", "complete", "gnp", "tree"]),
                               directed=directed, edge_w="tenth" if directed else None)
        n = len(spec["nodes"])
        idx = list(range(n))
        rng.shuffle(idx)
        I0 = idx[:rng.choice([1, 1, 2])]
        R0 = idx[len(I0):len(I0) + 1] if rng.random() < 0.3 else []
        out.append({"kind": kind, "graph": spec,
                    "tau": rng.choice([0.3, 0.7, 1.3]), "gamma": rng.choice([0.3, 0.7, 1.3]), "I0": I0, "R0": R0})
    return out


_CFG = {}


def _cfgs(seed, tier):
    if (seed, tier) not in _CFG:
        _CFG[(seed, tier)] = law_cfgs(seed, tier)
    return _CFG[(seed, tier)]


def law_sample(cfg, n, seed):
    G, labels = cases.build_graph(cfg["graph"])
    if cfg["kind"] == "get_infected_nodes":
        kw = {"initial_infecteds": [labels[i] for i in cfg["I0"]]}
        if cfg["R0"]:
            kw["initial_recovereds"] = [labels[i] for i in cfg["R0"]]

        def call():
            return EoN.get_infected_nodes(G, cfg["tau"], cfg["gamma"], **kw)

        def stat(v):
            s = set(v)
            return [("set", "".join("1" if x in s else "0" for x in labels))]
    elif cfg["kind"] == "fast_sir_directed":
        # fast_SIR's weighted path on a DIRECTED contact network with different weights on opposite
        # edges: the set of nodes ever infected is the out-component of first-passage percolation
        kw = {"initial_infecteds": [labels[i] for i in cfg["I0"]], "transmission_weight": "w", "return_full_data": True}
        if cfg["R0"]:
            kw["initial_recovereds"] = [labels[i] for i in cfg["R0"]]

        def call():
            return EoN.fast_SIR(G, cfg["tau"], cfg["gamma"], **kw)
        r0 = {labels[i] for i in cfg["R0"]}

        def stat(inv):
            d = inv.get_statuses(time=1e300)
            return [("set", "".join("1" if (d[x] == "R" and x not in r0) else "0" for x in labels))]
    else:
        u = labels[0]
        nb = list(G.neighbors(u))
        weights = cfg["kind"] == "dir_perc"

        def call():
            return EoN.directed_percolate_network(G, cfg["tau"], cfg["gamma"], weights=weights)

        def stat(H):
            return [("out", "".join("1" if H.has_edge(u, v) else "0" for v in nb))]
    return lawtest.sample_counts(call, n, seed, stat)


def law_expected(cfg):
    if cfg["kind"] in ("get_infected_nodes", "fast_sir_directed"):
        ref = CTMC(cfg["graph"], cfg["tau"], cfg["gamma"], edge_w="w" if cfg["kind"] == "fast_sir_directed" else None)
        n = len(cfg["graph"]["nodes"])
        st = ["S"] * n
        for i in cfg["I0"]:
            st[i] = "I"
        for i in cfg["R0"]:
            st[i] = "R"
        fin = ref.absorption(tuple(st))
        exp = {}
        for s, p in fin.items():
            k = "".join("1" if (s[i] == "R" and i not in cfg["R0"]) else "0" for i in range(n))
            exp[k] = exp.get(k, 0.0) + p
        return {"set": exp}
    # out-edge pattern of node 0: P(pattern with k kept of d) = sum_j C(k,j)(-1)^j gamma/(gamma+(d-k+j)tau)
    G, labels = cases.build_graph(cfg["graph"])
    d = G.degree(labels[0])
    tau, gamma = cfg["tau"], cfg["gamma"]
    exp = {}
    import itertools
    for bits in itertools.product("01", repeat=d):
        k = bits.count("1")
        p = sum(math.comb(k, j) * (-1) ** j * gamma / (gamma + (d - k + j) * tau) for j in range(k + 1))
        exp["".join(bits)] = p
    return {"out": exp}


def finalize(parts, tier, seed):
    cfgs = _cfgs(seed, tier)
    by = {}
    for (_f, _i), p in parts:
        d = by.setdefault(p["cfg"], {"n": 0, "counts": {}})
        d["n"] += p["n"]
        for k, v in p["counts"].items():
            d["counts"][k] = d["counts"].get(k, 0) + v
    tests, keys = [], []
    for j in sorted(by):
        exp = law_expected(cfgs[j])
        for statname, dist in exp.items():
            counts = {eval(k)[1]: v for k, v in by[j]["counts"].items() if eval(k)[0] == statname}
            cells = lawtest.test_cells(by[j]["n"], counts, dist)
            tests.append(((j, statname), by[j]["n"], cells))
            keys.extend("law|%d|%s" % (j, c[0]) for c in cells)
    fails, ncells, worst = lawtest.decide(tests)
    viol = []
    for (label, k, o, n, p, pv) in fails[:3]:
        cfg = cfgs[label[0]]
        viol.append({"cls": "law", "key": "%s/law" % cfg["kind"],
                     "msg": "config %d (%s): cell %r observed %d of %d, reference probability %.6g, p=%.3g"
                            % (label[0], cfg["kind"], k, o, n, p, pv),
                     "case": {"law_cfg": cfg, "n": n, "seed": seed, "cfg_index": label[0]}, "family": "law", "idx": label[0]})
    stats = {"law_cells_tested": ncells}
    if worst:
        stats["law_worst_z"] = round(worst[0], 3)
    return {"viol": viol, "stats": stats, "keys": keys}


# ---------------------------------------------------------------- driver
def run_one(family, rng, idx, tier):
    if family == "refine":
        case = gen_refine(rng)
        v, info = one_refine(case)
        stats = {"evaluations": 1, "horizon_%s" % case["hpolicy"]: 1, "probe_tied_event_times": info["ties"]}
        if case["hpolicy"] != "inf":
            stats["fault_F3_horizon_cut"] = 1
        out = {"viol": v, "stats": stats, "simtime": float(info.get("simtime", 0.0))}
        if info["nontrivial"]:
            h = hashlib.sha256(repr((case["graph"], case["tabseed"], case["I0"], case["R0"], case["tmin"], info["tmax"], case["api"])).encode())
            out["keys"] = ["refine|" + h.hexdigest()[:16]]
        if idx < 1:
            out["sample"] = case
        return out
    if family == "degenerate":
        case = simcases.gen_case(rng, "fast_SIR", nmax=10, buggify=False, allow_rho=False, horizon="inf")
        case["tmax"] = None
        if rng.random() < 0.5:
            case["tau"] = 0.0
            case["gamma"] = rng.choice([0.0, 0.7])
        else:
            case["gamma"] = 0.0
            case["tau"] = rng.choice([0.3, 1.0])
        v = one_degenerate(case)
        h = hashlib.sha256(repr((case["graph"], case["I0"], case["R0"], case["tau"], case["gamma"])).encode())
        return {"viol": v, "stats": {"evaluations": 1, "fault_F4_zero_rate": 1}, "keys": ["deg|" + h.hexdigest()[:16]]}
    if family == "builders":
        case = simcases.gen_case(rng, "fast_nonMarkov_SIR", nmax=10, buggify=False, allow_rho=False, horizon="inf")
        case["bweights"] = rng.random() < 0.6
        v = one_builder(case, rng)
        h = hashlib.sha256(repr((case["graph"], case["tabseed"], case["I0"], case["R0"], case["tau"], case["gamma"])).encode())
        return {"viol": v, "stats": {"evaluations": 1}, "keys": ["bld|" + h.hexdigest()[:16]]}
    if family == "law":
        seed = int(os.environ.get("VERIF_SEED", framework.DEFAULT_SEED))
        j, b = divmod(idx, LAW_BATCHES)
        cfg = _cfgs(seed, tier)[j]
        n = LAW_N[tier]
        counts = law_sample(cfg, n, rng.getrandbits(48))
        return {"partial": {"cfg": j, "n": n, "counts": {repr(k): v for k, v in counts.items()}},
                "stats": {"evaluations": n, "law_runs": n}}
    raise ValueError(family)


def replay(case):
    if "law_cfg" in case:
        cfg, n = case["law_cfg"], case["n"]
        counts = law_sample(cfg, n, case["seed"] * 7919 + case["cfg_index"])
        tests = []
        for statname, dist in law_expected(cfg).items():
            c = {k[1]: v for k, v in counts.items() if k[0] == statname}
            tests.append(((0, statname), n, lawtest.test_cells(n, c, dist)))
        fails, _, _ = lawtest.decide(tests)
        return [{"cls": "law", "key": "%s/law" % cfg["kind"], "msg": "replay %r" % (fails[0],), "case": case}] if fails else []
    if "hpolicy" in case:
        return one_refine(case)[0]
    if "bweights" in case:
        return one_builder(case, random.Random(1))
    return one_degenerate(case)
