"""C14 - Results depend on network structure, not on node names or ordering
(simulator half: the deterministic-rule simulators).

Family per table-driven simulator (fast_nonMarkov_SIR, fast_nonMarkov_SIS,
discrete_SIR) and the percolation builders: the case is run on G and on a copy
with (F6) new labels of another type, permuted node insertion order, shuffled
edge insertion order and orientation and a permuted initial-set order; the
callback tables are transported through the bijection.  Per-node histories
must map exactly (as status functions); infectors are compared where the
admissible predecessor is unique.

The ODE half of C14 is a pure function of its input and is not decided by this
technique (see DESIGN.md).
"""
import hashlib
import random

import eonsim
from eonsim import cases, simcases
from eonsim.refmodels import canon_history
from eonsim.seam import SEEDED, SimRandom, run_under
from eonsim.walks import V

EoN = eonsim.load_eon()
INF = float("inf")

PROPERTY = "C14"
LEVEL = "exploration"
RULE = ("per simulator: seeded graph N<=12 x keyed tables (dyadic pools -> many exact ties for the SIR simulators) x initial "
        "sets x horizon; second run on a relabelled (other label type), re-ordered copy with the tables transported. "
        "distinct = digest of (case, relabelling); non-trivial = at least one status change after tmin.")
ASSUMPTIONS = ["claimed for the simulator half only; ODE entry points are pure functions (not applicable to this technique)",
               "with exact ties the identity of the recorded infector may legitimately depend on insertion order: infectors are "
               "compared only when every infection time is unique"]
COMPONENTS = {"real": ["EoN.fast_nonMarkov_SIR", "EoN.fast_nonMarkov_SIS", "EoN.discrete_SIR",
                       "EoN.nonMarkov_directed_percolate_network_with_timing", "EoN.nonMarkov_directed_percolate_network"],
              "stub": ["user callbacks (keyed tables transported through the relabelling)"]}
SIM_LIST = ["fast_nonMarkov_SIR", "fast_nonMarkov_SIS", "discrete_SIR", "builders"]


def plan(tier):
    n = 15000 if tier == "quick" else 400000
    return [(s, n) for s in SIM_LIST] + [("ode", 2500 if tier == "quick" else 100000)]


def run_ode_pair(case, rng):
    """Same F6 perturbation (labels of another type, node / edge insertion order,
    edge orientation, initial-set order) applied to the graph handed to an ODE
    entry point: population curves must agree up to rounding.  This is a
    differential run under a schedule perturbation; the ODE half of C14 is
    otherwise outside what this technique decides (DESIGN.md sections 5, 12)."""
    import warnings
    import numpy as np
    from checks import c19
    G1, L1 = cases.build_graph(case["graph"])
    c2, perm = relabel(case, rng)
    G2, L2 = cases.build_graph(c2["graph"])
    nm = case["entry"]
    outs = []
    for G, L, c in ((G1, L1, case), (G2, L2, c2)):
        kw = c19.ode_graph_kwargs(nm, None, L, c)
        kw.pop("return_full_data", None)
        c19.ode_explicit_kwargs(nm, L, c, rng, kw)
        try:
            with np.errstate(all="ignore"), warnings.catch_warnings(record=True) as wl:
                warnings.simplefilter("always")
                val = c19.call_ode_graph(nm, G, c, kw)
            if any("ODEint" in type(w.message).__name__ or "lsoda" in str(w.message).lower() for w in wl):
                return [], "integrator-warning"
        except Exception as e:
            outs.append(("exc", type(e).__name__))
            continue
        try:
            arrs = [np.asarray(a, dtype=float) for a in (val if isinstance(val, (tuple, list)) else [val])]
        except Exception:
            return [], "non-numeric"
        outs.append(("ok", arrs))
    full_case = dict(case)
    full_case["relabelled"] = c2
    if outs[0][0] == "exc" and outs[1][0] == "exc":
        return [], "rejected:%s" % outs[0][1]
    if outs[0][0] != outs[1][0]:
        return [V("relabel", "%s/outcome-depends-on-labels" % nm, "on G: %r ; on the relabelled copy: %r"
                  % (outs[0][:2] if outs[0][0] == "exc" else "ok", outs[1][:2] if outs[1][0] == "exc" else "ok"), full_case)], None
    a, b = outs[0][1], outs[1][1]
    n = len(L1)
    if len(a) != len(b) or any(x.shape != y.shape for x, y in zip(a, b)):
        return [V("relabel", "%s/shape-depends-on-labels" % nm, "output shapes %r vs %r" % ([x.shape for x in a], [y.shape for y in b]), full_case)], None
    if any(not np.all(np.isfinite(x)) or np.max(np.abs(x)) > 1e3 * n + 1e3 for x in a + b):
        return [], "non-finite-or-blown-up"
    for k, (x, y) in enumerate(zip(a, b)):
        if not np.allclose(x, y, rtol=1e-5, atol=1e-5 * n + 1e-8):
            d = float(np.max(np.abs(x - y)))
            return [V("relabel", "%s/curves-depend-on-labels" % nm,
                      "output %d differs by up to %.6g between G and a relabelled, re-ordered copy (N=%d)" % (k, d, n), full_case)], None
    return [], None


def relabel(case, rng):
    """Second spec: same structure, other labels, other insertion orders.
    Returns (case2, perm) where node j of case2 is node perm[j] of case."""
    spec = case["graph"]
    n = len(spec["nodes"])
    perm = list(range(n))
    rng.shuffle(perm)
    inv = {old: new for new, old in enumerate(perm)}
    scheme = rng.choice([s for s in cases.LABEL_SCHEMES if s != spec.get("label")])
    labels = cases.make_labels(rng, n, scheme)
    edges = []
    for i, j, a in spec["edges"]:
        e = [inv[i], inv[j], dict(a)]
        if rng.random() < 0.5:
            e[0], e[1] = e[1], e[0]
        edges.append(e)
    rng.shuffle(edges)
    spec2 = {"directed": False, "family": spec.get("family"), "label": scheme,
             "nodes": [cases.enc_label(x) for x in labels], "nattr": [dict(spec["nattr"][perm[j]]) for j in range(n)],
             "edges": edges}
    c2 = dict(case)
    c2["graph"] = spec2
    I0 = [inv[i] for i in case["I0"]]
    rng.shuffle(I0)
    c2["I0"] = I0
    R0 = [inv[i] for i in case["R0"]]
    rng.shuffle(R0)
    c2["R0"] = R0
    return c2, perm


def run_pair(case, rng):
    name = case["sim"]
    G1, L1 = cases.build_graph(case["graph"])
    c2, perm = relabel(case, rng)
    G2, L2 = cases.build_graph(c2["graph"])
    idx2 = {L2[j]: perm[j] for j in range(len(L2))}
    r1, _, _, _ = simcases.call(case, True, sim=SimRandom(SEEDED, seed=5), tables=simcases.Tables(case, L1))
    r2, _, _, _ = simcases.call(c2, True, sim=SimRandom(SEEDED, seed=5), tables=simcases.Tables(c2, L2, index=idx2))
    full_case = dict(case)
    full_case["relabelled"] = c2
    full_case["perm"] = perm
    if r1.status != r2.status:
        return [V("relabel", "%s/outcome-differs" % name, "original: %r ; relabelled: %r" % (r1, r2), full_case)], 0
    if r1.status != "done":
        return [], 0
    changes = 0
    h1 = [canon_history([float(x) for x in r1.value.node_history(L1[i])[0]], list(r1.value.node_history(L1[i])[1]))
          for i in range(len(L1))]
    for j in range(len(L2)):
        ts, ss = r2.value.node_history(L2[j])
        h2 = canon_history([float(x) for x in ts], list(ss))
        changes += len(h2[0]) - 1
        if h2 != h1[perm[j]]:
            return [V("relabel", "%s/history-depends-on-labels" % name,
                      "node %r (relabelled %r): history %r on G, %r on the relabelled copy"
                      % (L1[perm[j]], L2[j], h1[perm[j]], h2), full_case)], changes
    # transmissions when all infection instants are distinct
    try:
        t1 = [(float(t), u, v) for (t, u, v) in r1.value.transmissions()]
        t2 = [(float(t), u, v) for (t, u, v) in r2.value.transmissions()]
    except Exception:
        return [], changes
    times = [t for (t, u, v) in t1 if u is not None]
    # only where simultaneous attempts cannot occur: the SIS tables give distinct
    # event times; with dyadic SIR tables two sources may reach a node at the
    # same instant and either is an admissible infector (C11 checks membership)
    if len(set(times)) == len(times) and name == "fast_nonMarkov_SIS" and not case.get("sis_ties"):
        i1 = {lab: i for i, lab in enumerate(L1)}
        a = sorted((t, None if u is None else i1[u], i1[v]) for (t, u, v) in t1 if u is not None)
        b = sorted((t, None if u is None else idx2[u], idx2[v]) for (t, u, v) in t2 if u is not None)
        if a != b:
            return [V("relabel", "%s/transmissions-depend-on-labels" % name, "transmissions %r on G, %r on the relabelled copy"
                      % (a, b), full_case)], changes
    return [], changes


def run_builders(case, rng):
    G1, L1 = cases.build_graph(case["graph"])
    c2, perm = relabel(case, rng)
    G2, L2 = cases.build_graph(c2["graph"])
    idx2 = {L2[j]: perm[j] for j in range(len(L2))}
    t1 = simcases.Tables(case, L1)
    t2 = simcases.Tables(c2, L2, index=idx2)
    full_case = dict(case)
    full_case["relabelled"] = c2
    full_case["perm"] = perm
    H1 = EoN.nonMarkov_directed_percolate_network_with_timing(G1, t1.sir_trans_time, t1.sir_rec_time)
    H2 = EoN.nonMarkov_directed_percolate_network_with_timing(G2, t2.sir_trans_time, t2.sir_rec_time)
    i1 = {lab: i for i, lab in enumerate(L1)}
    e1 = sorted((i1[u], i1[v], a.get("delay_to_infection")) for u, v, a in H1.edges(data=True))
    e2 = sorted((idx2[u], idx2[v], a.get("delay_to_infection")) for u, v, a in H2.edges(data=True))
    d1 = sorted((i1[u], H1.nodes[u].get("duration")) for u in H1)
    d2 = sorted((idx2[u], H2.nodes[u].get("duration")) for u in H2)
    if e1 != e2 or d1 != d2:
        return [V("relabel", "percolate_with_timing/depends-on-labels", "edges %r vs %r ; durations %r vs %r" % (e1, e2, d1, d2), full_case)], len(e1)
    # xi/zeta/transmission variant
    xi1 = {L1[i]: simcases.keyed(case["tabseed"], "xi", i) for i in range(len(L1))}
    ze1 = {L1[i]: simcases.keyed(case["tabseed"], "ze", i) for i in range(len(L1))}
    xi2 = {L2[j]: simcases.keyed(case["tabseed"], "xi", perm[j]) for j in range(len(L2))}
    ze2 = {L2[j]: simcases.keyed(case["tabseed"], "ze", perm[j]) for j in range(len(L2))}
    tr = lambda x, z: x * z > 0.2  # noqa: E731
    K1 = EoN.nonMarkov_directed_percolate_network(G1, xi1, ze1, tr)
    K2 = EoN.nonMarkov_directed_percolate_network(G2, xi2, ze2, tr)
    k1 = sorted((i1[u], i1[v]) for u, v in K1.edges())
    k2 = sorted((idx2[u], idx2[v]) for u, v in K2.edges())
    if k1 != k2 or K1.number_of_nodes() != K2.number_of_nodes():
        return [V("relabel", "nonMarkov_directed_percolate_network/depends-on-labels", "edges %r vs %r" % (k1, k2), full_case)], len(k1)
    return [], len(e1) + len(k1)


def run_one(family, rng, idx, tier):
    if family == "ode":
        from checks import c19
        case = c19.gen_ode_case(rng, c19.GRAPH_ENTRY)
        case["rl_seed"] = rng.getrandbits(32)
        case["sim"] = "ode"
        case["use_sets"] = rng.random() < 0.75
        case["ode_explicit"] = {"weights": rng.random() < 0.6, "nodelist": rng.random() < 0.6, "y0": rng.random() < 0.5}
        v, note = run_ode_pair(case, random.Random(case["rl_seed"]))
        stats = {"evaluations": 2, "fault_F6_relabel_and_reorder": 1}
        if note:
            return {"skipped": "ode %s" % note, "stats": stats}
        return {"viol": v, "stats": stats,
                "keys": ["ode|" + hashlib.sha256(repr(case).encode()).hexdigest()[:16]], "sample": case if idx < 1 else None}
    if family == "builders":
        case = simcases.gen_case(rng, "fast_nonMarkov_SIR", nmax=12, buggify=False, allow_rho=False, horizon="inf")
        case["rl_seed"] = rng.getrandbits(32)
        v, ch = run_builders(case, random.Random(case["rl_seed"]))
    else:
        case = simcases.gen_case(rng, family, nmax=12, buggify=False, allow_rho=False,
                                 horizon=rng.choice(["inf", "finite", "finite"]) if family != "fast_nonMarkov_SIS" else "finite")
        if family == "discrete_SIR":
            case["det_rule"] = True
        if family == "fast_nonMarkov_SIS":
            case["tmax"] = case["tmin"] + rng.choice([2.0, 4.0, 8.0])
            case["sis_ties"] = rng.random() < 0.3
        case["rl_seed"] = rng.getrandbits(32)
        v, ch = run_pair(case, random.Random(case["rl_seed"]))
    out = {"viol": v, "stats": {"evaluations": 1, "fault_F6_relabel_and_reorder": 1}}
    if ch:
        out["keys"] = ["%s|%s" % (family, hashlib.sha256(repr((case["graph"], case.get("tabseed"), case["I0"], case["rl_seed"])).encode()).hexdigest()[:16])]
    if idx < 1:
        out["sample"] = case
    return out


def replay(case):
    c = {k: v for k, v in case.items() if k not in ("relabelled", "perm")}
    if c.get("sim") == "ode":
        return run_ode_pair(c, random.Random(c["rl_seed"]))[0]
    if c["sim"] == "fast_nonMarkov_SIR" and "rl_seed" in c and case.get("violation_family") == "builders":
        return run_builders(c, random.Random(c["rl_seed"]))[0]
    v = run_pair(c, random.Random(c["rl_seed"]))[0]
    if not v and c["sim"] == "fast_nonMarkov_SIR":
        v = run_builders(c, random.Random(c["rl_seed"]))[0]
    return v
