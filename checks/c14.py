"""C14 - Results depend on network structure, not on node names or ordering
(simulator half: the deterministic-rule simulators).

Family per table-driven simulator (fast_nonMarkov_SIR, fast_nonMarkov_SIS,
discrete_SIR) and the percolation builders: the case is run on G and on a copy
with (F6) new labels of another type, permuted node insertion order, shuffled
edge insertion order and orientation and a permuted initial-set order; the
callback tables are transported through the bijection.  Per-node histories
must map exactly (as status functions); infectors are compared where the
admissible predecessor is unique.

The ODE half of C14 is a pure function of its input and is not decided by this
technique (see DESIGN.md).
"""
import hashlib
import random

import eonsim
from eonsim import cases, simcases
from eonsim.refmodels import canon_history
from eonsim.seam import SEEDED, SimRandom, run_under
from eonsim.walks import V

EoN = eonsim.load_eon()
INF = float("inf")

PROPERTY = "C14"
LEVEL = "exploration"
RULE = ("per simulator: seeded graph N<=12 x keyed tables (dyadic pools -> many exact ties for the SIR simulators) x initial "
        "sets x horizon; second run on a relabelled (other label type), re-ordered copy with the tables transported. "
        "distinct = digest of (case, relabelling); non-trivial = at least one status change after tmin.")
ASSUMPTIONS = ["claimed for the simulator half only; ODE entry points are pure functions (not applicable to this technique)",
               "with exact ties the identity of the recorded infector may legitimately depend on insertion order: infectors are "
               "compared only when every infection time is unique"]
COMPONENTS = {"real": ["EoN.fast_nonMarkov_SIR", "EoN.fast_nonMarkov_SIS", "EoN.discrete_SIR",
                       "EoN.nonMarkov_directed_percolate_network_with_timing", "EoN.nonMarkov_directed_percolate_network"],
              "stub": ["user callbacks (keyed tables transported through the relabelling)"]}
SIM_LIST = ["fast_nonMarkov_SIR", "fast_nonMarkov_SIS", "discrete_SIR", "builders"]


def plan(tier):
    n = 15000 if tier == "quick" else 400000
    return [(s, n) for s in SIM_LIST]


def relabel(case, rng):
    """Second spec: same structure, other labels, other insertion orders.
    Returns (case2, perm) where node j of case2 is node perm[j] of case."""
    spec = case["graph"]
    n = len(spec["nodes"])
    perm = list(range(n))
    rng.shuffle(perm)
    inv = {old: new for new, old in enumerate(perm)}
    scheme = rng.choice([s for s in cases.LABEL_SCHEMES if s != spec.get("label")])
    labels = cases.make_labels(rng, n, scheme)
    edges = []
    for i, j, a in spec["edges"]:
        e = [inv[i], inv[j], dict(a)]
        if rng.random() < 0.5:
            e[0], e[1] = e[1], e[0]
        edges.append(e)
    rng.shuffle(edges)
    spec2 = {"directed": False, "family": spec.get("family"), "label": scheme,
             "nodes": [cases.enc_label(x) for x in labels], "nattr": [dict(spec["nattr"][perm[j]]) for j in range(n)],
             "edges": edges}
    c2 = dict(case)
    c2["graph"] = spec2
    I0 = [inv[i] for i in case["I0"]]
    rng.shuffle(I0)
    c2["I0"] = I0
    R0 = [inv[i] for i in case["R0"]]
    rng.shuffle(R0)
    c2["R0"] = R0
    return c2, perm


def run_pair(case, rng):
    name = case["sim"]
    G1, L1 = cases.build_graph(case["graph"])
    c2, perm = relabel(case, rng)
    G2, L2 = cases.build_graph(c2["graph"])
    idx2 = {L2[j]: perm[j] for j in range(len(L2))}
    r1, _, _, _ = simcases.call(case, True, sim=SimRandom(SEEDED, seed=5), tables=simcases.Tables(case, L1))
    r2, _, _, _ = simcases.call(c2, True, sim=SimRandom(SEEDED, seed=5), tables=simcases.Tables(c2, L2, index=idx2))
    full_case = dict(case)
    full_case["relabelled"] = c2
    full_case["perm"] = perm
    if r1.status != r2.status:
        return [V("relabel", "%s/outcome-differs" % name, "original: %r ; relabelled: %r" % (r1, r2), full_case)], 0
    if r1.status != "done":
        return [], 0
    changes = 0
    h1 = [canon_history([float(x) for x in r1.value.node_history(L1[i])[0]], list(r1.value.node_history(L1[i])[1]))
          for i in range(len(L1))]
    for j in range(len(L2)):
        ts, ss = r2.value.node_history(L2[j])
        h2 = canon_history([float(x) for x in ts], list(ss))
        changes += len(h2[0]) - 1
        if h2 != h1[perm[j]]:
            return [V("relabel", "%s/history-depends-on-labels" % name,
                      "node %r (relabelled %r): history %r on G, %r on the relabelled copy"
                      % (L1[perm[j]], L2[j], h1[perm[j]], h2), full_case)], changes
    # transmissions when all infection instants are distinct
    try:
        t1 = [(float(t), u, v) for (t, u, v) in r1.value.transmissions()]
        t2 = [(float(t), u, v) for (t, u, v) in r2.value.transmissions()]
    except Exception:
        return [], changes
    times = [t for (t, u, v) in t1 if u is not None]
    # only where simultaneous attempts cannot occur: the SIS tables give distinct
    # event times; with dyadic SIR tables two sources may reach a node at the
    # same instant and either is an admissible infector (C11 checks membership)
    if len(set(times)) == len(times) and name == "fast_nonMarkov_SIS":
        i1 = {lab: i for i, lab in enumerate(L1)}
        a = sorted((t, None if u is None else i1[u], i1[v]) for (t, u, v) in t1 if u is not None)
        b = sorted((t, None if u is None else idx2[u], idx2[v]) for (t, u, v) in t2 if u is not None)
        if a != b:
            return [V("relabel", "%s/transmissions-depend-on-labels" % name, "transmissions %r on G, %r on the relabelled copy"
                      % (a, b), full_case)], changes
    return [], changes


def run_builders(case, rng):
    G1, L1 = cases.build_graph(case["graph"])
    c2, perm = relabel(case, rng)
    G2, L2 = cases.build_graph(c2["graph"])
    idx2 = {L2[j]: perm[j] for j in range(len(L2))}
    t1 = simcases.Tables(case, L1)
    t2 = simcases.Tables(c2, L2, index=idx2)
    full_case = dict(case)
    full_case["relabelled"] = c2
    full_case["perm"] = perm
    H1 = EoN.nonMarkov_directed_percolate_network_with_timing(G1, t1.sir_trans_time, t1.sir_rec_time)
    H2 = EoN.nonMarkov_directed_percolate_network_with_timing(G2, t2.sir_trans_time, t2.sir_rec_time)
    i1 = {lab: i for i, lab in enumerate(L1)}
    e1 = sorted((i1[u], i1[v], a.get("delay_to_infection")) for u, v, a in H1.edges(data=True))
    e2 = sorted((idx2[u], idx2[v], a.get("delay_to_infection")) for u, v, a in H2.edges(data=True))
    d1 = sorted((i1[u], H1.nodes[u].get("duration")) for u in H1)
    d2 = sorted((idx2[u], H2.nodes[u].get("duration")) for u in H2)
    if e1 != e2 or d1 != d2:
        return [V("relabel", "percolate_with_timing/depends-on-labels", "edges %r vs %r ; durations %r vs %r" % (e1, e2, d1, d2), full_case)], len(e1)
    # xi/zeta/transmission variant
    xi1 = {L1[i]: simcases.keyed(case["tabseed"], "xi", i) for i in range(len(L1))}
    ze1 = {L1[i]: simcases.keyed(case["tabseed"], "ze", i) for i in range(len(L1))}
    xi2 = {L2[j]: simcases.keyed(case["tabseed"], "xi", perm[j]) for j in range(len(L2))}
    ze2 = {L2[j]: simcases.keyed(case["tabseed"], "ze", perm[j]) for j in range(len(L2))}
    tr = lambda x, z: x * z > 0.2  # noqa: E731
    K1 = EoN.nonMarkov_directed_percolate_network(G1, xi1, ze1, tr)
    K2 = EoN.nonMarkov_directed_percolate_network(G2, xi2, ze2, tr)
    k1 = sorted((i1[u], i1[v]) for u, v in K1.edges())
    k2 = sorted((idx2[u], idx2[v]) for u, v in K2.edges())
    if k1 != k2 or K1.number_of_nodes() != K2.number_of_nodes():
        return [V("relabel", "nonMarkov_directed_percolate_network/depends-on-labels", "edges %r vs %r" % (k1, k2), full_case)], len(k1)
    return [], len(e1) + len(k1)


def run_one(family, rng, idx, tier):
    if family == "builders":
        case = simcases.gen_case(rng, "fast_nonMarkov_SIR", nmax=12, buggify=False, allow_rho=False, horizon="inf")
        case["rl_seed"] = rng.getrandbits(32)
        v, ch = run_builders(case, random.Random(case["rl_seed"]))
    else:
        case = simcases.gen_case(rng, family, nmax=12, buggify=False, allow_rho=False,
                                 horizon=rng.choice(["inf", "finite", "finite"]) if family != "fast_nonMarkov_SIS" else "finite")
        if family == "discrete_SIR":
            case["det_rule"] = True
        if family == "fast_nonMarkov_SIS":
            case["tmax"] = case["tmin"] + rng.choice([2.0, 4.0, 8.0])
        case["rl_seed"] = rng.getrandbits(32)
        v, ch = run_pair(case, random.Random(case["rl_seed"]))
    out = {"viol": v, "stats": {"evaluations": 1, "fault_F6_relabel_and_reorder": 1}}
    if ch:
        out["keys"] = ["%s|%s" % (family, hashlib.sha256(repr((case["graph"], case.get("tabseed"), case["I0"], case["rl_seed"])).encode()).hexdigest()[:16])]
    if idx < 1:
        out["sample"] = case
    return out


def replay(case):
    c = {k: v for k, v in case.items() if k not in ("relabelled", "perm")}
    if c["sim"] == "fast_nonMarkov_SIR" and "rl_seed" in c and case.get("violation_family") == "builders":
        return run_builders(c, random.Random(c["rl_seed"]))[0]
    v = run_pair(c, random.Random(c["rl_seed"]))[0]
    if not v and c["sim"] == "fast_nonMarkov_SIR":
        v = run_builders(c, random.Random(c["rl_seed"]))[0]
    return v
