"""C09 - Recorded transmissions are causally valid and complete.

Family per simulator offering transmissions (all but complex contagion):
seeded and buggified full-data runs (exact ties from grid-rounded / zero /
repeated exponentials and from dyadic callback tables; horizons anywhere).
Oracle: history.causality over every entry of every produced history.
"""
import hashlib

from eonsim import history, simcases, sweeps
from eonsim.walks import V
from checks.c04 import tune

PROPERTY = "C09"
LEVEL = "exploration"
RULE = ("per simulator with transmissions: seeded swarm as in C04, full data; distinct = digest of (node histories, "
        "transmissions); non-trivial = at least one transmission with a source.")
ASSUMPTIONS = ["a source whose recovery is processed at the very instant of the transmission counts as infectious at that instant",
               "a node infected at exactly tmin through a zero delay is represented by EoN with first entry 'I' (status function semantics)"]
COMPONENTS = {"real": ["eleven EoN simulators with full data", "EoN.Simulation_Investigation.transmissions/transmission_tree/node_history"],
              "stub": ["random source (SimRandom seeded/buggify)", "np.random.binomial", "user callbacks (keyed tables)"]}
SIM_LIST = sorted(simcases.WITH_TRANSMISSIONS)


def plan(tier):
    n = 6000 if tier == "quick" else 200000
    return [(s, n) for s in SIM_LIST]


def one_case(case):
    res, G, labels, tabs = simcases.call(case, True)
    info = {"status": res.status, "fired": dict(res.sim.fired), "ntrans": 0, "digest": None}
    if sweeps.is_harness_limit(res):
        return [], info
    if res.status == "exc":
        return [sweeps.crash_violation(case, res, "full-data")], info
    inv = res.value
    try:
        if sum(len(inv.node_history(x)[0]) for x in labels) > 4000:
            info["status"] = "too-long"       # oracle cost is quadratic in the history length
            return [], info
    except Exception:
        pass
    v = [V(cls, "%s/%s" % (case["sim"], suffix), msg, case) for cls, suffix, msg in history.causality(case, inv, G, labels)]
    try:
        tr = list(inv.transmissions())
        info["ntrans"] = sum(1 for x in tr if x[1] is not None)
        info["ties"] = len(tr) - len({x[0] for x in tr})
        fin = [x[0] for x in tr if x[0] < 1e17]
        info["simtime"] = float(max(fin) - case["tmin"]) if fin else 0.0
        info["digest"] = hashlib.sha256(repr((tr, [inv.node_history(x) for x in labels])).encode()).hexdigest()[:16]
    except Exception:
        pass
    return v, info


def run_one(family, rng, idx, tier):
    case = tune(simcases.gen_case(rng, family), rng)
    v, info = one_case(case)
    stats = {"evaluations": 1, "transmissions_checked": info["ntrans"], "probe_tied_transmission_times": info.get("ties", 0)}
    for k, n in info["fired"].items():
        stats["fault_F1_%s" % k] = n
    if info["status"] not in ("done", "exc"):
        return {"skipped": "seam: %s" % info["status"], "stats": stats}
    out = {"viol": v, "stats": stats, "simtime": min(1000.0, max(0.0, info.get("simtime", 0.0)))}
    if info["ntrans"] and info["digest"]:
        out["keys"] = ["%s|%s" % (family, info["digest"])]
    if idx < 1:
        out["sample"] = case
    return out


def replay(case):
    return one_case(case)[0]
