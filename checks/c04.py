"""C04 - Trajectories are well-formed: conserved counts, ordered time, one event a step.

Family per simulator (all twelve): seeded and buggified runs (F1 extreme
draws, exponential grid -> exact ties, F3 horizons anywhere incl. = tmin and
< tmin, F4 zero rates / isolated nodes / N=1 / empty rho set), arrays mode.
Oracle: history.wellformed + termination with I=0 for unbounded SIR runs.
"""
from eonsim import history, simcases, sweeps
from eonsim.walks import V

PROPERTY = "C04"
LEVEL = "exploration"
RULE = ("per simulator: seeded swarm of graph (N<=12, all families incl. isolated nodes and N=1), rates incl. 0, weights "
        "incl. 0, initial sets / rho, tmin, horizon policy (default, inf, finite, =tmin, <tmin), callback tables, and a "
        "seam in seeded or buggify mode. distinct = digest of the returned arrays; non-trivial = at least one row after "
        "the start row.")
ASSUMPTIONS = ["extreme draws injected by buggify (0, 1-2^-53, zero/repeated/huge exponentials, grid-rounded "
               "exponentials, first/last choice, binomial 0/n) are legal values of the primitives",
               "for tmax <= tmin the start row itself is exempt from 'never reaches tmax'"]
COMPONENTS = {"real": ["all twelve EoN simulators", "networkx", "numpy"],
              "stub": ["random source (SimRandom seeded/buggify)", "np.random.binomial", "user callbacks (keyed tables)"]}

SIM_LIST = sorted(simcases.SIMS)


def plan(tier):
    n = 4000 if tier == "quick" else 150000
    return [(s, n) for s in SIM_LIST]


def one_case(case):
    """Returns (violations, info)."""
    import hashlib
    res, G, labels, tabs = simcases.call(case, False)
    info = {"status": res.status, "fired": dict(res.sim.fired), "rows": 0, "digest": None}
    if sweeps.is_harness_limit(res):
        return [], info
    if res.status == "exc":
        return [sweeps.crash_violation(case, res, "arrays")], info
    n = G.number_of_nodes()
    v = []
    for cls, suffix, msg in history.wellformed(case, res.value, n) + history.ends_extinct(case, res.value):
        v.append(V(cls, "%s/%s" % (case["sim"], suffix), msg, case))
    try:
        t, cols, names = history.arrays_of(case, res.value)
        info["rows"] = len(t)
        info["simtime"] = (t[-1] - t[0]) if len(t) > 1 and t[-1] < 1e17 else 0.0
        info["digest"] = hashlib.sha256(repr((t, sorted(cols.items(), key=repr))).encode()).hexdigest()[:16]
    except Exception:
        pass
    return v, info


def tune(case, rng):
    """Keep runs bounded: SIS-type and generic models never get an infinite horizon in a sweep."""
    model = simcases.SIMS[case["sim"]][1]
    if model != "SIR" and case["tmax"] == float("inf"):
        case["tmax"] = case["tmin"] + 3.0
        case["horizon"] = "finite"
    if model != "SIR" and case["tmax"] is None and simcases.SIMS[case["sim"]][0] == "cont":
        # default tmax=100 can mean very many events on a dense graph
        case["tmax"] = case["tmin"] + rng.choice([2.0, 5.0])
        case["horizon"] = "finite"
    return case


def run_one(family, rng, idx, tier):
    case = tune(simcases.gen_case(rng, family), rng)
    v, info = one_case(case)
    stats = {"evaluations": 1, "horizon_%s" % case["horizon"]: 1}
    for k, n in info["fired"].items():
        stats["fault_F1_%s" % k] = n
    if case["seam"]["mode"] == "buggify":
        stats["runs_buggified"] = 1
    if case["horizon"] in ("finite", "at_tmin", "below_tmin"):
        stats["fault_F3_horizon_cut"] = 1
    if case.get("tau") == 0 or case.get("gamma") == 0 or case.get("p") in (0.0, 1.0) or case.get("rho") == 0.0:
        stats["fault_F4_degenerate"] = 1
    if info["status"] not in ("done", "exc"):
        return {"skipped": "seam: %s" % info["status"], "stats": stats}
    out = {"viol": v, "stats": stats, "simtime": min(1000.0, info.get("simtime", 0.0))}
    if info["rows"] > 1 and info["digest"]:
        out["keys"] = ["%s|%s" % (family, info["digest"])]
    if idx < 1:
        out["sample"] = case
    return out


def replay(case):
    v, info = one_case(case)
    return v
