"""C04 - Trajectories are well-formed: conserved counts, ordered time, one event a step.

Family per simulator (all twelve): seeded and buggified runs (F1 extreme
draws, exponential grid -> exact ties, F3 horizons anywhere incl. = tmin and
< tmin, F4 zero rates / isolated nodes / N=1 / empty rho set), arrays mode.
Oracle: history.wellformed + termination with I=0 for unbounded SIR runs.
"""
from eonsim import history, simcases, sweeps
from eonsim.walks import V

PROPERTY = "C04"
LEVEL = "exploration"
RULE = ("per simulator: seeded swarm of graph (N<=12, all families incl. isolated nodes and N=1), rates incl. 0, weights "
        "incl. 0, initial sets / rho, tmin, horizon policy (default, inf, finite, =tmin, <tmin), callback tables, and a "
        "seam in seeded or buggify mode. distinct = digest of the returned arrays; non-trivial = at least one row after "
        "the start row.")
ASSUMPTIONS = ["extreme draws injected by buggify (0, 1-2^-53, zero/repeated/huge exponentials, grid-rounded "
               "exponentials, first/last choice, binomial 0/n) are legal values of the primitives",
               "for tmax <= tmin the start row itself is exempt from 'never reaches tmax'"]
COMPONENTS = {"real": ["all twelve EoN simulators", "networkx", "numpy"],
              "stub": ["random source (SimRandom seeded/buggify)", "np.random.binomial", "user callbacks (keyed tables)"]}

SIM_LIST = sorted(simcases.SIMS)


def plan(tier):
    n = 4000 if tier == "quick" else 150000
    m = 1500 if tier == "quick" else 60000
    return [(s, n) for s in SIM_LIST] + [("prefix:" + s, m) for s in sorted(simcases.CONT)]


def one_prefix(case):
    """F3 - the horizon as crash point: the same seeded schedule is run with a
    long horizon and with the horizon cut at / just before / just after one of
    its event times; the cut run must be exactly the `t < tmax` prefix."""
    import math
    long_case = dict(case)
    res, G, labels, _ = simcases.call(long_case, False)
    if res.status != "done":
        return [], {"status": res.status, "rows": 0}
    try:
        t, cols, names = history.arrays_of(long_case, res.value)
    except Exception:
        return [], {"status": "shape", "rows": 0}
    info = {"status": "done", "rows": len(t)}
    ev = [x for x in t[1:] if x < 1e17]
    if not ev:
        return [], info
    e = ev[int(case["hpick"] * len(ev)) % len(ev)]
    pol = case["hpolicy"]
    T = e if pol == "on_event" else (math.nextafter(e, -math.inf) if pol == "before_event" else
                                      (math.nextafter(e, math.inf) if pol == "after_event" else e + 0.5 * (min([x for x in ev if x > e] + [e + 1.0]) - e)))
    if not T < case["tmax"]:
        return [], info          # the cut must lie inside the long run's horizon
    cut = dict(case)
    cut["tmax"] = T
    res2, _, _, _ = simcases.call(cut, False)
    if res2.status == "exc":
        return [sweeps.crash_violation(cut, res2, "arrays (cut horizon)")], info
    if res2.status != "done":
        return [], info
    try:
        t2, cols2, _ = history.arrays_of(cut, res2.value)
    except Exception as ex:
        return [V("shape", "%s/shape" % case["sim"], "cut run returned %r (%s)" % (res2.value, ex), cut)], info
    want = [(t[k],) + tuple(cols[nm][k] for nm in names) for k in range(len(t)) if k == 0 or t[k] < T]
    got = [(t2[k],) + tuple(cols2[nm][k] for nm in names) for k in range(len(t2))]
    info["cut_rows"] = len(got)
    if got != want:
        return [V("prefix", "%s/horizon-cut-is-not-a-prefix" % case["sim"],
                  "same seeded draws: tmax=%r gives rows %r ; the run with tmax=%r restricted to t<%r is %r"
                  % (T, got[-4:], case["tmax"], T, want[-4:]), dict(cut, long_tmax=case["tmax"]))], info
    return [], info


def one_case(case):
    """Returns (violations, info)."""
    import hashlib
    res, G, labels, tabs = simcases.call(case, False)
    info = {"status": res.status, "fired": dict(res.sim.fired), "rows": 0, "digest": None}
    if sweeps.is_harness_limit(res):
        return [], info
    if res.status == "exc":
        return [sweeps.crash_violation(case, res, "arrays")], info
    n = G.number_of_nodes()
    v = list(sweeps.args_violation(case, tabs))
    for cls, suffix, msg in history.wellformed(case, res.value, n) + history.ends_extinct(case, res.value):
        v.append(V(cls, "%s/%s" % (case["sim"], suffix), msg, case))
    try:
        t, cols, names = history.arrays_of(case, res.value)
        info["rows"] = len(t)
        info["simtime"] = (t[-1] - t[0]) if len(t) > 1 and t[-1] < 1e17 else 0.0
        info["digest"] = hashlib.sha256(repr((t, sorted(cols.items(), key=repr))).encode()).hexdigest()[:16]
    except Exception:
        pass
    return v, info


def tune(case, rng):
    """Keep runs bounded: SIS-type and generic models never get an infinite horizon in a sweep."""
    model = simcases.SIMS[case["sim"]][1]
    if model != "SIR" and case["tmax"] == float("inf"):
        case["tmax"] = case["tmin"] + 3.0
        case["horizon"] = "finite"
    if model != "SIR" and case["tmax"] is None and simcases.SIMS[case["sim"]][0] == "cont":
        # default tmax=100 can mean very many events on a dense graph
        case["tmax"] = case["tmin"] + rng.choice([2.0, 5.0])
        case["horizon"] = "finite"
    return case


def run_one(family, rng, idx, tier):
    if family.startswith("prefix:"):
        simname = family.split(":", 1)[1]
        case = simcases.gen_case(rng, simname, horizon="inf", allow_rho=True)
        model = simcases.SIMS[simname][1]
        case["tmax"] = float("inf") if model == "SIR" else case["tmin"] + rng.choice([2.0, 4.0])
        case["hpolicy"] = rng.choice(["on_event", "before_event", "after_event", "mid"])
        case["hpick"] = rng.random()
        case["prefix_family"] = True
        v, info = one_prefix(case)
        stats = {"evaluations": 2, "fault_F3_horizon_cut": 1, "horizon_%s" % case["hpolicy"]: 1}
        if info["status"] != "done":
            return {"skipped": "prefix: %s" % info["status"], "stats": stats}
        out = {"viol": v, "stats": stats}
        if info.get("cut_rows", 0) > 1:
            import hashlib
            out["keys"] = ["%s|%s" % (family, hashlib.sha256(repr(case).encode()).hexdigest()[:16])]
        return out
    case = tune(simcases.gen_case(rng, family), rng)
    v, info = one_case(case)
    stats = {"evaluations": 1, "horizon_%s" % case["horizon"]: 1}
    for k, n in info["fired"].items():
        stats["fault_F1_%s" % k] = n
    if case["seam"]["mode"] == "buggify":
        stats["runs_buggified"] = 1
    if case["horizon"] in ("finite", "at_tmin", "below_tmin"):
        stats["fault_F3_horizon_cut"] = 1
    if case.get("tau") == 0 or case.get("gamma") == 0 or case.get("p") in (0.0, 1.0) or case.get("rho") == 0.0:
        stats["fault_F4_degenerate"] = 1
    if info["status"] not in ("done", "exc"):
        return {"skipped": "seam: %s" % info["status"], "stats": stats}
    out = {"viol": v, "stats": stats, "simtime": min(1000.0, info.get("simtime", 0.0))}
    if info["rows"] > 1 and info["digest"]:
        out["keys"] = ["%s|%s" % (family, info["digest"])]
    if idx < 1:
        out["sample"] = case
    return out


def replay(case):
    if case.get("prefix_family"):
        c = dict(case)
        if "long_tmax" in c:
            c["tmax"] = c.pop("long_tmax")
        return one_prefix(c)[0]
    v, info = one_case(case)
    return v
