"""C19 - Calls do not modify their arguments and can be repeated.

Families
  sims      E5: seeded sequences of 3-6 simulator calls that SHARE their
            argument objects (graph with attributes, initial-condition lists /
            sets / arrays / dicts / defaultdicts, spec DiGraphs, return_statuses,
            kwargs dicts); a deep structural snapshot of every object is
            compared before/after each call; every call must succeed each time.
  ode_graph every ODE entry point that takes a graph: called twice with shared
            objects -> arguments untouched, identical results.
  ode_arrays the direct array-argument forms, with the arrays the *_from_graph
            wrappers themselves build (captured, then owned by the harness):
            values, shape, dtype and flags untouched; second call identical.
"""
import collections
import hashlib
import inspect
import json
import random
import warnings
import zlib

import networkx as nx
import numpy as np

import eonsim
from eonsim import callseq, cases, contagion, simcases
from eonsim.seam import SEEDED, SimRandom, run_under
from eonsim.walks import V

EoN = eonsim.load_eon()
import EoN.analytic as AN  # noqa: E402

PROPERTY = "C19"
LEVEL = "exploration"
RULE = ("sims: seeded pools of shared argument objects and seeded call sequences over the twelve simulators and the "
        "percolation helpers; ode_graph / ode_arrays: seeded graphs N<=9, rates, rho or explicit initial sets, small time grids, "
        "every public entry point of EoN.analytic that integrates a model. distinct = digest of (entry point(s), arguments); "
        "non-trivial = every case (each makes at least one call with non-empty arguments).")
ASSUMPTIONS = ["a defaultdict argument may gain default-valued keys by being read (the caller's own container semantics); "
               "existing entries must be untouched",
               "snapshots compare nodes, edges, attribute dicts, container contents and order, array bytes, shape, dtype, flags"]
COMPONENTS = {"real": ["all simulators and percolation helpers of EoN.simulation", "all ODE entry points of EoN.analytic", "scipy.integrate.odeint"],
              "stub": ["random source for the simulators (SimRandom seeded)", "user callbacks (keyed tables)"]}

SIR_SIS = [s for s in simcases.SIMS if simcases.SIMS[s][1] != "generic"]


def plan(tier):
    if tier == "quick":
        return [("sims", 5000), ("ode_graph", 3000), ("ode_arrays", 2000)]
    return [("sims", 80000), ("ode_graph", 30000), ("ode_arrays", 20000)]


# -------------------------------------------------------------------- sims
def run_sim_sequence(case):
    rng = __import__("random").Random(case["seqseed"])
    G, labels = cases.build_graph(case["graph"])
    n = len(labels)
    cont = case["containers"]
    L = [labels[i] for i in case["I0"]]
    if cont == "list":
        I0 = list(L)
    elif cont == "set":
        I0 = set(L)
    elif cont == "tuple":
        I0 = tuple(L)
    elif cont == "ndarray":
        I0 = np.array(L)
    else:
        I0 = {x: 1 for x in L}
    R0 = [labels[i] for i in case["R0"]]
    tabs = simcases.Tables(case, labels)
    sc = contagion.SimpleAdapter(dict(case["simple"], graph=case["graph"], prefix=[]))
    cc = contagion.ComplexAdapter(dict(case["complex"], graph=case["graph"], prefix=[]))
    IC_s = sc._ic()
    IC_c = {lab: s for lab, s in zip(labels, cc.init_state)}
    ret_s = list(sc.ret)
    ret_c = list(case["complex"]["ret"])
    params = tuple(cc.params)
    sim_kwargs = {"tex": False}
    pool = {"G": G, "initial_infecteds": I0, "initial_recovereds": R0, "H": sc.H, "J": sc.J, "IC_simple": IC_s,
            "IC_complex": IC_c, "return_statuses_simple": ret_s, "return_statuses_complex": ret_c, "sim_kwargs": sim_kwargs,
            "parameters": params}
    if sc.spont_kwargs:
        pool["spont_kwargs"] = sc.spont_kwargs
    if sc.nbr_kwargs:
        pool["nbr_kwargs"] = sc.nbr_kwargs
    names = sorted(pool)
    out = []
    succeeded, rejected = set(), []
    for step, call in enumerate(case["calls"]):
        name, full = call[0], call[1]
        opt = bool(call[2]) if len(call) > 2 else False
        before = {nm: callseq.snap(pool[nm]) for nm in names}
        # the same call (function, return mode) always gets the same draws, so a repeat differs from
        # its first occurrence only through state carried over in the shared argument objects
        sim = SimRandom(SEEDED, seed=case["seqseed"] + zlib.crc32(("%s|%s|%s" % (name, full, opt)).encode()) % 100000)
        kw = {"tmin": case["tmin"], "return_full_data": full}
        if full and name not in ("percolate", "get_infected_nodes"):
            kw["sim_kwargs"] = sim_kwargs
        model = simcases.SIMS.get(name, (None, None))[1]
        if name in SIR_SIS:
            kw["initial_infecteds"] = I0
            if simcases.SIMS[name][2] and R0:
                kw["initial_recovereds"] = R0
            kw["tmax"] = case["tmin"] + (3 if simcases.SIMS[name][0] == "disc" else 2.0)
        if name in ("fast_SIR", "fast_SIS", "Gillespie_SIR", "Gillespie_SIS"):
            kw["transmission_weight"] = "w" if case.get("ew") else None
            kw["recovery_weight"] = "nw" if case.get("nw") else None
            res = run_under(sim, getattr(EoN, name), G, case["tau"], case["gamma"], **kw)
        elif name == "fast_nonMarkov_SIR":
            if opt:
                res = run_under(sim, EoN.fast_nonMarkov_SIR, G, trans_and_rec_time_fxn=tabs.sir_joint, **kw)
            else:
                res = run_under(sim, EoN.fast_nonMarkov_SIR, G, trans_time_fxn=tabs.sir_trans_time, rec_time_fxn=tabs.sir_rec_time, **kw)
        elif name == "fast_nonMarkov_SIS":
            if opt:
                res = run_under(sim, EoN.fast_nonMarkov_SIS, G, trans_and_rec_time_fxn=tabs.sis_joint, **kw)
            else:
                res = run_under(sim, EoN.fast_nonMarkov_SIS, G, trans_time_fxn=tabs.sis_trans_time, rec_time_fxn=tabs.sis_rec_time, **kw)
        elif name == "discrete_SIR":
            if opt:
                # the optional user rules (own copy of the keyed tables so that a repeat sees the same answers)
                t2 = simcases.Tables(case, labels)
                res = run_under(sim, EoN.discrete_SIR, G, test_transmission=t2.contact_ok, test_recovery=t2.recovers, **kw)
            else:
                res = run_under(sim, EoN.discrete_SIR, G, args=(case["p"],), **kw)
        elif name in ("basic_discrete_SIR", "percolation_based_discrete_SIR", "basic_discrete_SIS"):
            res = run_under(sim, getattr(EoN, name), G, case["p"], **kw)
        elif name == "Gillespie_simple_contagion":
            kw["tmax"] = case["tmin"] + 2.0
            if sc.spont_kwargs:
                kw["spont_kwargs"] = pool["spont_kwargs"]
            if sc.nbr_kwargs:
                kw["nbr_kwargs"] = pool["nbr_kwargs"]
            res = run_under(sim, EoN.Gillespie_simple_contagion, G, sc.H, sc.J, IC_s, ret_s, **kw)
        elif name == "Gillespie_complex_contagion":
            kw["tmax"] = case["tmin"] + 2.0
            res = run_under(sim, EoN.Gillespie_complex_contagion, G, cc.rate, cc.choose, cc.infl, IC_c, ret_c,
                            parameters=params, **kw)
        elif name == "percolate":
            res = run_under(sim, EoN.directed_percolate_network, G, case["tau"], case["gamma"])
            if res.status == "done":
                res = run_under(sim, EoN.estimate_SIR_prob_size, G, case["p"])
        elif name == "get_infected_nodes":
            a = {"initial_infecteds": I0 if cont in ("list", "set", "tuple") else list(L)}
            if R0:
                a["initial_recovereds"] = R0
            res = run_under(sim, EoN.get_infected_nodes, G, case["tau"], case["gamma"], **a)
        else:
            raise ValueError(name)
        if res.status == "exc":
            # C19 is about repeated calls: a call that fails although the very same call (same function,
            # same shared arguments, same return mode) succeeded earlier in this sequence is a violation;
            # an entry point that rejects these arguments outright is another property's business
            if (name, full, opt) in succeeded:
                return [V("repeat", "%s/second-call-fails" % name,
                          "call %d of the sequence %r (shared arguments, initial set as %s) raised %s: %s although the same "
                          "call succeeded earlier in the sequence" % (step, case["calls"], cont, type(res.exc).__name__, res.exc), case)]
            rejected.append(name)
            continue
        if res.status != "done":
            return []
        succeeded.add((name, full, opt))
        after = {nm: callseq.snap(pool[nm]) for nm in names}
        changed = callseq.diff(names, before, after, pool)
        if changed:
            nm = changed[0]
            return [V("mutated", "%s/mutates-%s" % (name, nm),
                      "call %d (%s, return_full_data=%r) changed its argument %s; now %s"
                      % (step, name, full, nm, callseq.describe(pool[nm])), case)]
    return out


def gen_sim_sequence(rng):
    base = simcases.gen_case(rng, "fast_SIR", nmax=8, buggify=False, allow_rho=False, horizon="finite", selfloops=0.35,
                             directed=rng.random() < 0.25)
    if rng.random() < 0.25:
        base["gamma"] = 0.0        # degenerate rate: some helpers take shortcuts for it
    spec = base["graph"]
    # every attribute any simulator may be asked for
    for e in spec["edges"]:
        e[2].setdefault("w", cases.draw_weight(rng, "tenth"))
        e[2]["w2"] = cases.draw_weight(rng, "tenth")
    for a in spec["nattr"]:
        a.setdefault("nw", cases.draw_weight(rng, "tenth"))
        a["nw2"] = cases.draw_weight(rng, "tenth")
    base["ew"] = base["nw"] = True
    if rng.random() < 0.5:
        base["ew"] = base["nw"] = False
    simple = contagion.gen_simple_case(rng, nmax=4)
    simple["graph"] = spec
    n = len(spec["nodes"])
    sts = [contagion.dec_status(s) for s in simple["statuses"]]
    simple["IC"] = [contagion.enc_status(rng.choice(sts)) for _ in range(n)]
    cplx = contagion.gen_complex_case(rng)
    _, _, _, csts = contagion.make_complex_model(cplx["model"], cplx["params"])
    cplx["IC"] = [rng.choice(csts) for _ in range(n)]
    names = sorted(simcases.SIMS) + ["percolate", "get_infected_nodes"]
    calls = [[rng.choice(names), rng.random() < 0.5, rng.random() < 0.5] for _ in range(rng.randint(3, 6))]
    # repeats of an earlier call are what the property is about: duplicate one or two of them
    for _ in range(rng.randint(1, 2)):
        calls.append(list(rng.choice(calls)))
    cont = rng.choice(["list", "set", "tuple", "ndarray", "dict"])
    if cont == "ndarray" or (cont == "tuple" and spec["label"] in ("tuple", "fset", "falsy")):
        if spec["label"] not in ("int", "perm"):
            cont = "list"
    base.update({"simple": {k: v for k, v in simple.items() if k != "graph"},
                 "complex": {k: v for k, v in cplx.items() if k != "graph"},
                 "calls": calls, "containers": cont, "seqseed": rng.getrandbits(30), "kind": "sims"})
    return base


# -------------------------------------------------------------- ODE part
def ode_entry_points():
    """Public functions of EoN.analytic that take a graph G first."""
    out = []
    for nm, fn in sorted(vars(AN).items()):
        if nm.startswith("_") or not inspect.isfunction(fn) or fn.__module__ != AN.__name__:
            continue
        try:
            params = list(inspect.signature(fn).parameters)
        except (TypeError, ValueError):
            continue
        if params and params[0] == "G" and ("tau" in params or "p" in params):
            out.append(nm)
    return out


GRAPH_ENTRY = ode_entry_points()


def ode_graph_kwargs(nm, rng, labels, case):
    params = inspect.signature(getattr(AN, nm)).parameters
    kw = {}
    if "tmax" in params:
        kw["tmax"] = case["tmax"]
    if "tcount" in params:
        kw["tcount"] = case["tcount"]
    if "tmin" in params:
        kw["tmin"] = 0
    if "return_full_data" in params and case["full"]:
        kw["return_full_data"] = True
    if "number_its" in params:
        kw["number_its"] = 20
    I0 = [labels[i] for i in case["I0"]]
    R0 = [labels[i] for i in case["R0"]]
    if "initial_infecteds" in params and (case["use_sets"] or params["initial_infecteds"].default is inspect.Parameter.empty):
        kw["initial_infecteds"] = I0
        if "initial_recovereds" in params and R0:
            kw["initial_recovereds"] = R0
    elif "rho" in params:
        kw["rho"] = case["rho"]
    return kw


def ode_explicit_kwargs(nm, L, c, rng, kw):
    """Optional call styles of the graph-taking ODE entry points (case["ode_explicit"]): weight labels,
    an explicit nodelist in an order of its own, per-node Y0 / X0 arrays listed in that order."""
    ex = c.get("ode_explicit") or {}
    params = inspect.signature(getattr(AN, nm)).parameters
    if ex.get("weights"):
        # heterogeneous per-edge / per-node rates: they must travel with the nodes
        if "transmission_weight" in params:
            kw["transmission_weight"] = "w"
        if "recovery_weight" in params:
            kw["recovery_weight"] = "nw"
    if ex.get("nodelist") and "nodelist" in params:
        order = list(range(len(L)))
        rng.shuffle(order)
        kw["nodelist"] = [L[i] for i in order]
        if ex.get("y0") and "Y0" in params:
            kw.pop("rho", None)
            I0s, R0s = set(c["I0"]), set(c["R0"])
            y = np.array([0.9 if i in I0s else 0.05 for i in order])
            kw["Y0"] = y
            if "X0" in params:
                kw["X0"] = np.array([1.0 - y[k] - (0.6 if i in R0s else 0.0) if i not in I0s else 0.1
                                     for k, i in enumerate(order)])
    return kw


def call_ode_graph(nm, G, case, kw):
    fn = getattr(AN, nm)
    params = inspect.signature(fn).parameters
    if "p" in params and "tau" not in params:
        return fn(G, case["p"], **kw)
    return fn(G, case["tau"], case["gamma"], **kw)


def one_ode_graph(case):
    G, labels = cases.build_graph(case["graph"])
    nm = case["entry"]
    kw = ode_graph_kwargs(nm, None, labels, case)
    ode_explicit_kwargs(nm, labels, case, random.Random(case.get("ex_seed", 0)), kw)
    pool = {"G": G}
    for k in ("initial_infecteds", "initial_recovereds", "nodelist", "Y0", "X0"):
        if k in kw:
            pool[k] = kw[k]
    names = sorted(pool)
    digests = []
    for rep in range(2):
        before = {x: callseq.snap(pool[x]) for x in names}
        try:
            with np.errstate(all="ignore"), warnings.catch_warnings(record=True) as wlist:
                warnings.simplefilter("always")
                val = call_ode_graph(nm, G, case, kw)
            if any("ODEint" in type(w.message).__name__ or "lsoda" in str(w.message).lower() for w in wlist):
                # the integrator gave up: its output is unspecified (C06's business), nothing to compare
                return [], "integrator-warning"
        except Exception as e:
            if rep == 0:
                # an entry point that rejects this input is C06's business, not C19's
                return [], "rejected:%s" % type(e).__name__
            return [V("repeat", "%s/second-call-fails" % nm, "first call succeeded, second call with the same objects raised "
                      "%s: %s" % (type(e).__name__, e), case)], None
        after = {x: callseq.snap(pool[x]) for x in names}
        changed = callseq.diff(names, before, after, pool)
        if changed:
            return [V("mutated", "%s/mutates-%s" % (nm, changed[0]), "call %d changed %s; now %s"
                      % (rep, changed[0], callseq.describe(pool[changed[0]])), case)], None
        digests.append(callseq.result_digest(val))
    if digests[0] != digests[1]:
        return [V("repeat", "%s/not-deterministic" % nm, "two calls with the same arguments return different results", case)], None
    return [], None


DIRECT = ["SIS_heterogeneous_meanfield", "SIR_heterogeneous_meanfield", "SIS_heterogeneous_pairwise", "SIR_heterogeneous_pairwise",
          "SIS_compact_pairwise", "SIR_compact_pairwise", "SIS_super_compact_pairwise", "SIR_super_compact_pairwise",
          "SIS_effective_degree", "SIR_effective_degree", "SIS_compact_effective_degree", "SIR_compact_effective_degree",
          "SIS_homogeneous_meanfield", "SIR_homogeneous_meanfield", "SIS_homogeneous_pairwise", "SIR_homogeneous_pairwise",
          "SIS_individual_based", "SIR_individual_based", "SIS_pair_based", "SIR_pair_based",
          "EBCM", "EBCM_discrete", "EBCM_pref_mix", "EBCM_pref_mix_discrete", "Attack_rate_discrete", "Attack_rate_cts_time"]
WRAPPER_OF = {d: (d + "_from_graph") for d in DIRECT}
WRAPPER_OF.update({"SIS_individual_based": "SIS_individual_based_pure_IC", "SIR_individual_based": "SIR_individual_based_pure_IC",
                   "SIS_pair_based": "SIS_pair_based_pure_IC", "SIR_pair_based": "SIR_pair_based_pure_IC"})


def capture_direct_args(direct, G, case, labels):
    """Let the wrapper build valid arguments for the direct form."""
    wrapper = WRAPPER_OF[direct]
    if not hasattr(AN, wrapper) or not hasattr(AN, direct):
        return None
    captured = {}
    real = getattr(AN, direct)

    def recorder(*a, **k):
        captured["a"] = a
        captured["k"] = k
        raise _Captured()
    kw = ode_graph_kwargs(wrapper, None, labels, case)
    setattr(AN, direct, recorder)
    try:
        with np.errstate(all="ignore"):
            call_ode_graph(wrapper, G, case, kw)
    except _Captured:
        pass
    except Exception:
        return None
    finally:
        setattr(AN, direct, real)
    if "a" not in captured:
        return None
    return captured


class _Captured(Exception):
    pass


def own(x):
    """Deep copy of captured arguments so that the harness owns them."""
    if isinstance(x, np.ndarray):
        return np.array(x, copy=True)
    if isinstance(x, (nx.Graph, nx.DiGraph)):
        return x.copy()
    if isinstance(x, dict):
        return {k: own(v) for k, v in x.items()}
    if isinstance(x, list):
        return [own(v) for v in x]
    if isinstance(x, tuple):
        return tuple(own(v) for v in x)
    return x


def one_ode_arrays(case):
    G, labels = cases.build_graph(case["graph"])
    direct = case["entry"]
    cap = capture_direct_args(direct, G, case, labels)
    if cap is None:
        return [], "no-capture"
    args = [own(a) for a in cap["a"]]
    kwargs = {k: own(v) for k, v in cap["k"].items()}
    fn = getattr(AN, direct)
    if direct in ("SIS_pair_based", "SIR_pair_based") and case.get("pair_full") and kwargs.get("Y0") is not None \
            and kwargs.get("XY0") is None:
        # the optional pair arrays, given as the natural full outer products (non-zero also for pairs
        # that are not edges; the solver restricts them to edges itself)
        Y0 = np.asarray(kwargs["Y0"], dtype=float)
        X0 = np.asarray(kwargs["X0"], dtype=float) if kwargs.get("X0") is not None else 1.0 - Y0
        kwargs["XY0"] = np.outer(X0, Y0)
        kwargs["XX0"] = np.outer(X0, X0)
    pnames = list(inspect.signature(fn).parameters)
    pool = {}
    for i, a in enumerate(args):
        pool[pnames[i] if i < len(pnames) else "arg%d" % i] = a
    for k, v in kwargs.items():
        pool[k] = v
    names = sorted(k for k, v in pool.items() if isinstance(v, (np.ndarray, nx.Graph, dict, list)))
    digests = []
    for rep in range(2):
        before = {x: callseq.snap(pool[x]) for x in names}
        try:
            with np.errstate(all="ignore"), warnings.catch_warnings(record=True) as wlist:
                warnings.simplefilter("always")
                val = fn(*args, **kwargs)
            if any("ODEint" in type(w.message).__name__ or "lsoda" in str(w.message).lower() for w in wlist):
                return [], "integrator-warning"
        except Exception as e:
            if rep == 0:
                return [], "rejected:%s" % type(e).__name__
            return [V("repeat", "%s/second-call-fails" % direct, "first call succeeded, second call with the same array "
                      "objects raised %s: %s" % (type(e).__name__, e), case)], None
        after = {x: callseq.snap(pool[x]) for x in names}
        changed = callseq.diff(names, before, after, pool)
        if changed:
            nm = changed[0]
            b = before[nm]
            return [V("mutated", "%s/mutates-%s" % (direct, nm),
                      "call %d changed array argument %s: shape %r -> %s" % (rep, nm, b[1] if b[0] == "nd" else "?",
                                                                             callseq.describe(pool[nm])), case)], None
        digests.append(callseq.result_digest(val))
    if digests[0] != digests[1]:
        return [V("repeat", "%s/not-deterministic" % direct, "two calls with the same arguments return different results", case)], None
    return [], None


def gen_ode_case(rng, entry_list):
    spec = cases.gen_graph(rng, 3, 9, family=rng.choice(["path", "star", "cycle", "complete", "gnp", "tree", "lollipop"]),
                           label=rng.choice(["int", "perm", "str", "tuple"]), edge_w="tenth", node_w="tenth")
    n = len(spec["nodes"])
    idx = list(range(n))
    rng.shuffle(idx)
    I0 = idx[:rng.choice([1, 2])]
    R0 = idx[len(I0):len(I0) + 1] if rng.random() < 0.4 else []
    return {"graph": spec, "entry": rng.choice(entry_list), "tau": rng.choice([0.3, 0.7, 1.3]), "gamma": rng.choice([0.3, 1.0]),
            "p": rng.choice([0.2, 0.5]), "rho": rng.choice([0.1, 0.3]), "I0": I0, "R0": R0, "use_sets": rng.random() < 0.6,
            "tmax": rng.choice([1.0, 3.0]), "tcount": rng.choice([4, 11]), "full": rng.random() < 0.5,
            "pair_full": rng.random() < 0.6}


def run_one(family, rng, idx, tier):
    if family == "sims":
        case = gen_sim_sequence(rng)
        v = run_sim_sequence(case)
        stats = {"evaluations": len(case["calls"]), "fault_F8_shared_argument_calls": len(case["calls"]),
                 "container_%s" % case["containers"]: 1}
        key = "s|" + hashlib.sha256(json.dumps(case, sort_keys=True, default=repr).encode()).hexdigest()[:16]
    elif family == "ode_graph":
        case = gen_ode_case(rng, GRAPH_ENTRY)
        case["kind"] = "ode_graph"
        case["ode_explicit"] = {"weights": rng.random() < 0.5, "nodelist": rng.random() < 0.5, "y0": rng.random() < 0.6}
        case["ex_seed"] = rng.getrandbits(30)
        v, note = one_ode_graph(case)
        stats = {"evaluations": 2, "entry_points_available": len(GRAPH_ENTRY)}
        if note:
            return {"skipped": "%s %s" % (case["entry"], note), "stats": stats}
        key = "g|" + hashlib.sha256(json.dumps(case, sort_keys=True, default=repr).encode()).hexdigest()[:16]
    else:
        case = gen_ode_case(rng, DIRECT)
        case["kind"] = "ode_arrays"
        v, note = one_ode_arrays(case)
        stats = {"evaluations": 2}
        if note:
            return {"skipped": "%s %s" % (case["entry"], note), "stats": stats}
        key = "a|" + hashlib.sha256(json.dumps(case, sort_keys=True, default=repr).encode()).hexdigest()[:16]
    out = {"viol": v, "stats": stats, "keys": [key]}
    if idx < 1:
        out["sample"] = case
    return out


def replay(case):
    if case.get("kind") == "sims":
        return run_sim_sequence(case)
    if case.get("kind") == "ode_graph":
        return one_ode_graph(case)[0]
    return one_ode_arrays(case)[0]
