"""C01 - Markovian SIR simulators sample the exact network SIR process.

Families
  gil_walk   E1: seeded walks over reachable states of Gillespie_SIR; at every
             state the exact clock rate and jump law of the real code are
             extracted through the seam and compared with the CTMC reference;
             at the end of each walk both return modes are compared row by row.
  law        E3: seeded samples of fast_SIR (both code paths) and Gillespie_SIR;
             the law of the full status vector at two times and of the final
             state is tested against expm(Q T) / the absorption law.
"""
import os
import random

from eonsim import cases, framework, markov

PROPERTY = "C01"
LEVEL = "exploration"
SIM = "Gillespie_SIR"
RULE = ("gil_walk: seeded swarm of (graph N<=6, weights, rates incl. 0, initial I/R sets, tmin, labels); "
        "each walk visits reachable epidemic states of Gillespie_SIR and enumerates the draw tree of one step "
        "at each (local oracle). A case is distinct by (graph+parameter digest, status vector) and non-trivial "
        "when it was probed. law: seeded samples of fast_SIR/Gillespie_SIR per configuration; distinct = "
        "configuration x statistic cell with expected count >= 10.")
ASSUMPTIONS = [
    "random.random/choice/sample/expovariate and numpy.random.binomial have their documented distributions",
    "each use of a uniform draw in the code is a monotone step function of the draw (breakpoints located to 2^-35)",
    "fast_SIR's law is decided statistically (exact binomial tails, total false-alarm probability <= 1e-9 per run)",
]
COMPONENTS = {"real": ["EoN.Gillespie_SIR", "EoN.fast_SIR", "EoN.fast_nonMarkov_SIR", "EoN._ListDict_", "EoN.myQueue",
                       "EoN.Simulation_Investigation", "networkx", "numpy"],
              "stub": ["random source (SimRandom / seeded random.Random)", "numpy.random.binomial (seeded RandomState)"]}

N_LAW_BATCH = {"quick": 25000, "thorough": 250000}
LAW_BATCHES = 4
N_LAW_CFG = {"quick": 24, "thorough": 96}
KINDS = ["fast_plain", "fast_nodew", "general_edgew", "general_zero", "gillespie"]


def plan(tier):
    if tier == "quick":
        return [("gil_walk", 1200), ("law", N_LAW_CFG[tier] * LAW_BATCHES)]
    return [("gil_walk", 15000), ("law", N_LAW_CFG[tier] * LAW_BATCHES)]


def law_configs(seed, tier):
    out = []
    for j in range(N_LAW_CFG[tier]):
        rng = random.Random(framework.derive_int(seed, PROPERTY, "lawcfg", j))
        kind = KINDS[j % len(KINDS)]
        ew = nw = None
        if kind == "fast_nodew":
            # zero node weights included: a node that never recovers takes its
            # own branch of the fast path (repaired defect, see known_findings)
            nw = rng.choice(["dyadic", "tenth", "twolevel", "somezero", "somezero"])
        if kind == "general_edgew":
            ew = rng.choice(["dyadic", "tenth", "twolevel", "somezero"])
            nw = rng.choice([None, "tenth"])
        if kind == "gillespie":
            ew = rng.choice([None, "tenth", "twolevel"])
            nw = rng.choice([None, "dyadic"])
        fam = rng.choice(["path", "star", "cycle", "complete", "gnp", "tree", "lollipop"])
        spec = cases.gen_graph(rng, 3, 5, family=fam, edge_w=ew, node_w=nw)
        n = len(spec["nodes"])
        tau = rng.choice([0.3, 0.7, 1.0, 1.3])
        gamma = rng.choice([0.3, 0.7, 1.0, 1.3])
        if kind == "general_zero":
            if rng.random() < 0.5:
                gamma = 0.0
            else:
                tau = 0.0
        idx = list(range(n))
        rng.shuffle(idx)
        I0 = idx[:rng.choice([1, 1, 2])]
        R0 = idx[len(I0):len(I0) + 1] if rng.random() < 0.3 else []
        out.append({"kind": kind, "graph": spec, "tau": tau, "gamma": gamma, "I0": I0, "R0": R0,
                    "ew": bool(ew), "nw": bool(nw), "T": [0.5, 2.0],
                    "sim": "Gillespie_SIR" if kind == "gillespie" else "fast_SIR"})
    return out


_CFG = {}


def _cfgs(seed, tier):
    if (seed, tier) not in _CFG:
        _CFG[(seed, tier)] = law_configs(seed, tier)
    return _CFG[(seed, tier)]


def run_one(family, rng, idx, tier):
    if family == "gil_walk":
        case = markov.gen_walk_case(rng, SIM)
        stats, keys = {}, set()
        v, skipped = markov.run_walk(case, rng, 12 if tier == "quick" else 14, stats, keys)
        stats["evaluations"] = stats.get("states_probed", 0)
        for flag, name in ((case["ew"], "walks_edge_weighted"), (case["nw"], "walks_node_weighted"),
                           (case["tau"] == 0 or case["gamma"] == 0, "fault_F4_zero_rate"),
                           (bool(case["R0"]), "walks_with_initial_recovered")):
            if flag:
                stats[name] = 1
        out = {"viol": v, "stats": stats, "keys": sorted(keys), "simtime": float(stats.get("events_walked", 0))}
        if skipped:
            out["skipped"] = skipped
        if idx < 2:
            out["sample"] = case
        return out
    if family == "law":
        seed = int(os.environ.get("VERIF_SEED", framework.DEFAULT_SEED))
        j, b = divmod(idx, LAW_BATCHES)
        cfg = _cfgs(seed, tier)[j]
        n = N_LAW_BATCH[tier]
        counts = markov.law_sample(cfg, n, rng.getrandbits(48))
        return {"partial": {"cfg": j, "n": n, "counts": {repr(k): v for k, v in counts.items()}},
                "stats": {"evaluations": n, "law_runs": n}}
    raise ValueError(family)


def finalize(parts, tier, seed):
    return markov.law_finalize(parts, _cfgs(seed, tier), seed, PROPERTY)


def replay(case):
    if "law_cfg" in case:
        return markov.law_replay(case)
    return markov.replay_walk(case)


def research(case):
    """Minimisation support: fresh seeded walks on a (reduced) case."""
    c = {k: v for k, v in case.items() if k != "prefix"}
    for s in range(6):
        v, _ = markov.run_walk(c, random.Random(s), 12, {}, set())
        if v:
            return v
    return []
