"""C01 - Markovian SIR simulators sample the exact network SIR process.

Families
  gil_walk   E1: seeded walks over reachable states of Gillespie_SIR; at every
             state the exact clock rate and jump law of the real code are
             extracted through the seam and compared with the CTMC reference.
  law        E3: seeded samples of fast_SIR (both code paths) and Gillespie_SIR;
             the law of the full status vector at two times and of the final
             state is tested against expm(Q T) / the absorption law.
"""
import hashlib
import json

import eonsim
from eonsim import cases, lawtest, walks
from eonsim.explorer import Skip
from eonsim.refmodels import CTMC
from eonsim.seam import SCRIPTED, SimRandom, run_under

EoN = eonsim.load_eon()

PROPERTY = "C01"
LEVEL = "exploration"
RULE = ("gil_walk: seeded swarm of (graph N<=6, weights, rates incl. 0, initial I/R sets, tmin, labels); "
        "each walk visits reachable epidemic states of Gillespie_SIR and enumerates the draw tree of one step "
        "at each (local oracle). A case is distinct by (graph+parameter digest, status vector) and non-trivial "
        "when the probed state has at least one enabled event. law: seeded samples of fast_SIR/Gillespie_SIR "
        "per configuration; distinct = configuration digest x statistic cell with expected count >= 10.")
ASSUMPTIONS = [
    "random.random/choice/sample/expovariate and numpy.random.binomial have their documented distributions",
    "each use of a uniform draw in the code is a monotone step function of the draw (breakpoints located to 2^-35)",
    "fast_SIR's law is decided statistically (exact binomial tails, total false-alarm probability <= 1e-9 per run)",
]
COMPONENTS = {"real": ["EoN.Gillespie_SIR", "EoN.fast_SIR", "EoN.fast_nonMarkov_SIR", "EoN._ListDict_", "EoN.myQueue",
                       "EoN.Simulation_Investigation", "networkx", "numpy"],
              "stub": ["random source (SimRandom / seeded random.Random)", "numpy.random.binomial (seeded RandomState)"]}

N_LAW_BATCH = {"quick": 25000, "thorough": 250000}
LAW_BATCHES = 4
N_LAW_CFG = {"quick": 24, "thorough": 96}


def plan(tier):
    if tier == "quick":
        return [("gil_walk", 900), ("law", N_LAW_CFG[tier] * LAW_BATCHES)]
    return [("gil_walk", 40000), ("law", N_LAW_CFG[tier] * LAW_BATCHES)]


# ------------------------------------------------------------------ E1
class SIRAdapter(object):
    name = "Gillespie_SIR"

    def __init__(self, case):
        self.case = case
        self.G, self.labels = cases.build_graph(case["graph"])
        self.n = len(self.labels)
        self.ew = "w" if case.get("ew") else None
        self.nw = "nw" if case.get("nw") else None
        self.ref = CTMC(case["graph"], case["tau"], case["gamma"], sis=False,
                        edge_w=self.ew, node_w=self.nw)
        st = ["S"] * self.n
        for i in case["I0"]:
            st[i] = "I"
        for i in case["R0"]:
            st[i] = "R"
        self.init_state = tuple(st)
        self.trans_ok = True
        self.case_digest = hashlib.sha256(json.dumps(
            {k: v for k, v in case.items() if k != "prefix"}, sort_keys=True).encode()).hexdigest()[:12]

    def run(self, script, full=True):
        c = self.case
        sim = SimRandom(SCRIPTED, script=script, end_on_clock=True)
        kw = dict(initial_infecteds=[self.labels[i] for i in c["I0"]],
                  tmin=c["tmin"], return_full_data=full,
                  transmission_weight=self.ew, recovery_weight=self.nw)
        if c["R0"] or c.get("R0_given"):
            kw["initial_recovereds"] = [self.labels[i] for i in c["R0"]]
        if c.get("tmax") is not None:
            kw["tmax"] = c["tmax"]
        return run_under(sim, EoN.Gillespie_SIR, self.G, c["tau"], c["gamma"], **kw)

    def decode(self, res):
        ev, final, first, tok = walks.decode_investigation(res.value, self.labels)
        self.trans_ok = tok
        return [(e[1], e[2], e[3]) for e in ev], final

    def sig_of(self, res):
        if res.status == "exc":
            return ("exc", type(res.exc).__name__)
        if res.status != "done":
            return (res.status,)
        ev, final = self.decode(res)
        return (tuple(ev[-1:]), final)

    def code_key(self, ev, state):
        i, s, src = ev
        if s == "I":
            return ("inf", src, i)
        return ("rec", i, s)

    def project(self, rk):
        if rk[0] == "inf":
            return ("inf", rk[1] if self.trans_ok else "?", rk[2])
        return ("rec", rk[1], self.ref.after_rec)

    def hints(self, state):
        ev = self.ref.enabled(state)
        tot = sum(ev.values())
        h = set()
        if tot > 0:
            h.add(sum(r for k, r in ev.items() if k[0] == "rec") / tot)
        for kind in ("rec", "inf"):
            ws = [r for k, r in ev.items() if k[0] == kind]
            if ws:
                m = max(ws)
                for w in ws:
                    h.add(w / m)
        # stale maxima: ratios against every weight in the graph
        if self.ew:
            allw = sorted({a["w"] for _, _, a in self.case["graph"]["edges"]})
            for w in allw:
                for m in allw:
                    if m > 0 and w < m:
                        h.add(w / m)
        if self.nw:
            allw = sorted({a["nw"] for a in self.case["graph"]["nattr"]})
            for w in allw:
                for m in allw:
                    if m > 0 and w < m:
                        h.add(w / m)
        return h


def gen_walk_case(rng):
    label = rng.choice(cases.LABEL_SCHEMES)
    ew = rng.choice([None, None] + list(cases.WEIGHT_SCHEMES))
    nw = rng.choice([None, None] + list(cases.WEIGHT_SCHEMES))
    spec = cases.gen_graph(rng, 1, 6, directed=False, label=label, edge_w=ew, node_w=nw)
    n = len(spec["nodes"])
    idx = list(range(n))
    rng.shuffle(idx)
    k = 1 if rng.random() < 0.5 else rng.randint(1, n)
    I0 = idx[:k]
    rest = idx[k:]
    R0 = []
    if rest and rng.random() < 0.4:
        R0 = rest[:rng.randint(1, len(rest))]
    return {"sim": "Gillespie_SIR", "graph": spec, "tau": cases.draw_rate(rng),
            "gamma": cases.draw_rate(rng), "I0": I0, "R0": R0,
            "R0_given": bool(R0) or rng.random() < 0.2,
            "tmin": rng.choice([0, 0, 5, -2.5]), "tmax": None,
            "ew": bool(ew), "nw": bool(nw), "ew_scheme": ew, "nw_scheme": nw}


def _prefer(rng, cands, state, step):
    c = rng.random()
    if c < 0.35:
        inf = [k for k in cands if k[0] == "inf"]
        if inf:
            return rng.choice(inf)
    elif c < 0.5:
        rec = [k for k in cands if k[0] == "rec"]
        if rec:
            return rng.choice(rec)
    return rng.choice(cands)


def check_rows(ad, prefix, nev, case_of):
    """Both return modes consume the same draws: arrays rows == event counts."""
    res = ad.run(prefix, full=False)
    if res.status != "done":
        return []
    try:
        t, S, I, R = res.value
        rows = list(zip([float(x) for x in t], [int(x) for x in S], [int(x) for x in I], [int(x) for x in R]))
    except Exception as e:
        return [walks.V("rows", "Gillespie_SIR/rows-shape", "arrays mode returned %r (%s)" % (res.value, e), case_of(prefix))]
    resf = ad.run(prefix, full=True)
    ev, final, first, tok = walks.decode_investigation(resf.value, ad.labels)
    st = list(first)
    want = [(ad.case["tmin"], st.count("S"), st.count("I"), st.count("R"))]
    for (tt, i, s, src) in ev:
        st[i] = s
        want.append((tt, st.count("S"), st.count("I"), st.count("R")))
    if rows != want:
        return [walks.V("rows", "Gillespie_SIR/rows-vs-histories",
                        "same draws: arrays %r but histories give %r" % (rows, want), case_of(prefix))]
    return []


def run_walk(case, rng, max_steps, stats, keys):
    ad = SIRAdapter(case)

    def case_of(prefix):
        c = dict(case)
        c["prefix"] = [list(e) for e in prefix]
        return c
    try:
        v = walks.walk(ad, rng, max_steps, stats, case_of, keys=keys, prefer=_prefer)
    except Skip as e:
        return [], "skip: %s" % str(e)[:60]
    return v, None


def replay_walk(case):
    import random
    ad = SIRAdapter(case)
    prefix = [tuple(e) if e[0] != "s" else ("s", tuple(e[1])) for e in case.get("prefix", [])]

    def case_of(p):
        c = dict(case)
        c["prefix"] = [list(e) for e in p]
        return c
    stats = {}
    if not prefix:
        return walks.walk(ad, random.Random(1), 1, stats, case_of)
    res = ad.run(prefix)
    if res.status == "exc":
        return [walks.V("crash", "Gillespie_SIR/exception/%s" % type(res.exc).__name__, str(res.exc), case)]
    if res.status != "done":
        return []
    ev, final = ad.decode(res)
    # the stored prefix may end inside a step (event_effect): probe from its last clock
    cut = max(i for i, e in enumerate(prefix) if e[0] == "e") if any(e[0] == "e" for e in prefix) else 0
    for p in (prefix, prefix[:cut]):
        r = ad.run(p)
        if r.status != "done":
            continue
        ev, final = ad.decode(r)
        v, _ = walks.probe_state(ad, p, final, len(ev), r.next_clock, stats, case_of)
        if v:
            return v
    return []


# ------------------------------------------------------------------ E3
def law_configs(seed, tier):
    import random
    out = []
    for j in range(N_LAW_CFG[tier]):
        rng = random.Random(eonsim_framework.derive_int(seed, "C01", "lawcfg", j))
        kind = ["fast_plain", "fast_nodew", "general_edgew", "general_zero", "gillespie"][j % 5]
        ew = nw = None
        if kind == "fast_nodew":
            nw = rng.choice(["dyadic", "tenth", "twolevel"])
        if kind == "general_edgew":
            ew = rng.choice(["dyadic", "tenth", "twolevel", "somezero"])
            nw = rng.choice([None, "tenth"])
        if kind == "gillespie":
            ew = rng.choice([None, "tenth", "twolevel"])
            nw = rng.choice([None, "dyadic"])
        fam = rng.choice(["path", "star", "cycle", "complete", "gnp", "tree", "lollipop"])
        spec = cases.gen_graph(rng, 3, 5, family=fam, edge_w=ew, node_w=nw)
        n = len(spec["nodes"])
        tau = rng.choice([0.3, 0.7, 1.0, 1.3])
        gamma = rng.choice([0.3, 0.7, 1.0, 1.3])
        if kind == "general_zero":
            if rng.random() < 0.5:
                gamma = 0.0
            else:
                tau = 0.0
        idx = list(range(n))
        rng.shuffle(idx)
        I0 = idx[:rng.choice([1, 1, 2])]
        R0 = idx[len(I0):len(I0) + 1] if rng.random() < 0.3 else []
        out.append({"kind": kind, "graph": spec, "tau": tau, "gamma": gamma, "I0": I0, "R0": R0,
                    "ew": bool(ew), "nw": bool(nw), "T": [0.5, 2.0],
                    "sim": "Gillespie_SIR" if kind == "gillespie" else "fast_SIR"})
    return out


from eonsim import framework as eonsim_framework  # noqa: E402

_CFG_CACHE = {}


def _cfgs(seed, tier):
    k = (seed, tier)
    if k not in _CFG_CACHE:
        _CFG_CACHE[k] = law_configs(seed, tier)
    return _CFG_CACHE[k]


def law_sample(cfg, n, seed):
    G, labels = cases.build_graph(cfg["graph"])
    fn = getattr(EoN, cfg["sim"])
    kw = dict(initial_infecteds=[labels[i] for i in cfg["I0"]], return_full_data=True,
              transmission_weight="w" if cfg["ew"] else None,
              recovery_weight="nw" if cfg["nw"] else None)
    if cfg["R0"]:
        kw["initial_recovereds"] = [labels[i] for i in cfg["R0"]]
    T = cfg["T"]
    tau, gamma = cfg["tau"], cfg["gamma"]
    final_ok = gamma > 0

    def call():
        return fn(G, tau, gamma, **kw)

    def stat(sim):
        out = []
        for j, tt in enumerate(T):
            d = sim.get_statuses(time=tt)
            out.append((j, "".join(d[x] for x in labels)))
        if final_ok:
            d = sim.get_statuses(time=1e300)
            out.append(("F", "".join(d[x] for x in labels)))
        return out
    return lawtest.sample_counts(call, n, seed, stat)


def law_expected(cfg):
    ref = CTMC(cfg["graph"], cfg["tau"], cfg["gamma"], sis=False,
               edge_w="w" if cfg["ew"] else None, node_w="nw" if cfg["nw"] else None)
    n = len(cfg["graph"]["nodes"])
    st = ["S"] * n
    for i in cfg["I0"]:
        st[i] = "I"
    for i in cfg["R0"]:
        st[i] = "R"
    init = tuple(st)
    exp = {}
    for j, tt in enumerate(cfg["T"]):
        exp[j] = {"".join(s): p for s, p in ref.dist_at(init, tt).items()}
    if cfg["gamma"] > 0:
        exp["F"] = {"".join(s): p for s, p in ref.absorption(init).items()}
    return exp


# ------------------------------------------------------------------ driver
def run_one(family, rng, idx, tier):
    if family == "gil_walk":
        case = gen_walk_case(rng)
        stats, keys = {}, set()
        v, skipped = run_walk(case, rng, 12 if tier == "quick" else 14, stats, keys)
        out = {"viol": v, "stats": stats, "keys": sorted(keys)}
        stats["evaluations"] = stats.get("states_probed", 0)
        if case["ew"]:
            stats["walks_edge_weighted"] = 1
        if case["nw"]:
            stats["walks_node_weighted"] = 1
        if case["tau"] == 0 or case["gamma"] == 0:
            stats["fault_F4_zero_rate"] = 1
        if case["R0"]:
            stats["walks_with_initial_recovered"] = 1
        if skipped:
            out["skipped"] = skipped
        if idx < 3:
            out["sample"] = case
        out["simtime"] = float(stats.get("events_walked", 0))
        return out
    if family == "law":
        seed = int(os.environ.get("VERIF_SEED", eonsim_framework.DEFAULT_SEED))
        cfgs = _cfgs(seed, tier)
        j, b = divmod(idx, LAW_BATCHES)
        cfg = cfgs[j]
        n = N_LAW_BATCH[tier]
        counts = law_sample(cfg, n, rng.getrandbits(48))
        return {"partial": {"cfg": j, "n": n, "counts": {repr(k): v for k, v in counts.items()}},
                "stats": {"evaluations": n, "law_runs": n}}
    raise ValueError(family)


import os  # noqa: E402


def finalize(parts, tier, seed):
    cfgs = _cfgs(seed, tier)
    by = {}
    for (_fam, _idx), p in parts:
        d = by.setdefault(p["cfg"], {"n": 0, "counts": {}})
        d["n"] += p["n"]
        for k, v in p["counts"].items():
            d["counts"][k] = d["counts"].get(k, 0) + v
    tests = []
    keys = []
    for j in sorted(by):
        cfg = cfgs[j]
        exp = law_expected(cfg)
        n = by[j]["n"]
        for statname, dist in exp.items():
            counts = {}
            for k, v in by[j]["counts"].items():
                kk = eval(k)
                if kk[0] == statname:
                    counts[kk[1]] = v
            cells = lawtest.test_cells(n, counts, dist)
            tests.append(((j, statname), n, cells))
            for k, o, p in cells:
                keys.append("law|%d|%s|%s" % (j, statname, k))
    fails, ncells, worst = lawtest.decide(tests)
    viol = []
    for (label, k, o, n, p, pv) in fails[:3]:
        j, statname = label
        cfg = cfgs[j]
        viol.append({"cls": "law", "key": "%s/%s/law" % (cfg["sim"], cfg["kind"]),
                     "msg": "config %d (%s): statistic %r cell %r observed %d of %d, reference probability %.6g, "
                            "two-sided exact binomial p=%.3g < %.3g" % (j, cfg["kind"], statname, k, o, n, p, pv,
                                                                        lawtest.DELTA / max(1, ncells)),
                     "case": {"law_cfg": cfg, "n": n, "seed": seed, "cfg_index": j},
                     "family": "law", "idx": j})
    stats = {"law_cells_tested": ncells, "law_configs": len(by)}
    if worst:
        stats["law_worst_z"] = round(worst[0], 3)
        stats["law_worst_cell"] = "%r %s obs=%d n=%d p=%.5g" % (worst[1], worst[2], worst[3], worst[4], worst[5])
    samples = []
    if by:
        j = sorted(by)[0]
        samples.append({"family": "law", "run_index": j, "case": cfgs[j]})
    return {"viol": viol, "stats": stats, "keys": keys, "samples": samples}


def replay(case):
    if "law_cfg" in case:
        cfg = case["law_cfg"]
        n = case["n"]
        counts = law_sample(cfg, n, case["seed"] * 7919 + case["cfg_index"])
        exp = law_expected(cfg)
        tests = []
        for statname, dist in exp.items():
            c = {k[1]: v for k, v in counts.items() if k[0] == statname}
            tests.append(((case["cfg_index"], statname), n, lawtest.test_cells(n, c, dist)))
        fails, ncells, worst = lawtest.decide(tests)
        return [{"cls": "law", "key": "%s/%s/law" % (cfg["sim"], cfg["kind"]),
                 "msg": "replay: %r" % (fails[0],), "case": case}] if fails else []
    return replay_walk(case)
