"""Sensitivity self-test:  ./check mutants [--only name] [--patch file --props C01,C02] [--tier quick]

Each patch of /verif/mutants (header line '# props: C01,C16') is applied to a
scratch copy of /repo's EoN package under $TMPDIR (never /repo, /verif), the
quick tier of the listed properties is run against it with EON_VERIF_REPO,
a VIOLATION is expected, and the copy is deleted.  Results: evidence/mutants.json.
"""
import json
import os
import shutil
import subprocess
import sys
import tempfile
import time

import eonsim


def run_patch(patch, props, tier="quick", seed=None, keep_evidence=False):
    repo = os.environ.get("EON_VERIF_REPO", "/repo")
    tmp = tempfile.mkdtemp(prefix="eon_mut_", dir=os.environ.get("TMPDIR", "/tmp"))
    out = {"patch": os.path.basename(patch), "props": {}, "applied": False}
    try:
        shutil.copytree(os.path.join(repo, "EoN"), os.path.join(tmp, "EoN"),
                        ignore=shutil.ignore_patterns("__pycache__", "*.pyc", "tests"))
        body = "".join(l for l in open(patch) if not l.startswith("# "))
        p = subprocess.run(["git", "apply", "-"], input=body.encode(), cwd=tmp, stdout=subprocess.PIPE, stderr=subprocess.PIPE)
        if p.returncode != 0:
            out["error"] = "patch does not apply: %s" % p.stderr.decode()[-300:]
            return out
        out["applied"] = True
        c = subprocess.run([sys.executable, "-c", "import sys; sys.path.insert(0, %r); import EoN" % tmp],
                           stdout=subprocess.PIPE, stderr=subprocess.PIPE,
                           env=dict(os.environ, MPLBACKEND="Agg", PYTHONWARNINGS="ignore", PYTHONDONTWRITEBYTECODE="1"))
        if c.returncode != 0:
            out["error"] = "mutant does not import: %s" % c.stderr.decode()[-300:]
            return out
        here = os.path.join(eonsim.VERIF, "check")
        for prop in props:
            env = dict(os.environ)
            env["EON_VERIF_REPO"] = tmp
            if not keep_evidence:
                env["EON_VERIF_EVIDENCE_DIR"] = "/dev/null"
            if seed is not None:
                env["VERIF_SEED"] = str(seed)
            t0 = time.time()
            r = subprocess.run([sys.executable, here, prop, "--tier", tier], stdout=subprocess.PIPE, stderr=subprocess.PIPE, env=env)
            lines = r.stdout.decode().splitlines()
            viol = [l for l in lines if l.startswith("VIOLATION")]
            keys = [l.strip() for l in lines if l.strip().startswith("class=")]
            out["props"][prop] = {"rc": r.returncode, "violations": len(viol), "first": keys[:2], "wall_s": round(time.time() - t0, 1)}
            if viol and os.environ.get("EON_VERIF_MUTANT_REPLAY", "1") == "1":
                # the replay file must reproduce the violation on the mutated tree in a fresh
                # process, and must NOT reproduce it on the unchanged tree
                path = viol[0].split("replay=")[1].strip()
                rm = subprocess.run([sys.executable, here, prop, "--replay", path], stdout=subprocess.PIPE, stderr=subprocess.PIPE, env=env)
                env2 = dict(env)
                env2["EON_VERIF_REPO"] = repo
                rc = subprocess.run([sys.executable, here, prop, "--replay", path], stdout=subprocess.PIPE, stderr=subprocess.PIPE, env=env2)
                out["props"][prop]["replay_on_mutant_rc"] = rm.returncode
                out["props"][prop]["replay_on_clean_rc"] = rc.returncode
            if r.returncode == 2:
                out["props"][prop]["stderr"] = r.stderr.decode()[-400:]
                out["props"][prop]["stdout"] = r.stdout.decode()[-600:]
    finally:
        shutil.rmtree(tmp, ignore_errors=True)
    return out


def main(argv):
    tier = "quick"
    only = None
    patch = None
    props = None
    i = 0
    while i < len(argv):
        if argv[i] == "--tier":
            tier = argv[i + 1]; i += 2
        elif argv[i] == "--only":
            only = argv[i + 1]; i += 2
        elif argv[i] == "--patch":
            patch = argv[i + 1]; i += 2
        elif argv[i] == "--props":
            props = argv[i + 1].split(","); i += 2
        else:
            print("unknown argument", argv[i]); return 2
    if patch:
        r = run_patch(patch, props or [], tier)
        print(json.dumps(r, indent=1))
        return 0
    d = os.path.join(eonsim.VERIF, "mutants")
    results = []
    for f in sorted(os.listdir(d)):
        if not f.endswith(".patch") or (only and only not in f):
            continue
        path = os.path.join(d, f)
        head = open(path).readline()
        ps = head.split("props:")[1].strip().split(",") if "props:" in head else []
        r = run_patch(path, ps, tier)
        killed = [p for p, v in r["props"].items() if v["rc"] == 1]
        r["killed_by"] = killed
        results.append(r)
        print("%-55s %s  %s" % (f, "KILLED by " + ",".join(killed) if killed else "SURVIVED",
                                {p: (v["rc"], "replay mutant/clean", v.get("replay_on_mutant_rc"), v.get("replay_on_clean_rc"))
                                 for p, v in r["props"].items()} if not r.get("error") else r["error"]), flush=True)
    if not only:
        with open(os.path.join(eonsim.VERIF, "evidence", "mutants.json"), "w") as fh:
            json.dump({"tier": tier, "mutants": results, "killed": sum(1 for r in results if r["killed_by"]), "total": len(results)}, fh, indent=1)
    surv = [r["patch"] for r in results if not r["killed_by"]]
    print("mutants: %d of %d killed; survivors: %s" % (len(results) - len(surv), len(results), surv))
    return 0
