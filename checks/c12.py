"""C12 - Discrete-time simulators follow generation-by-generation Reed-Frost dynamics.

Families
  dsir       E2: discrete_SIR under keyed table rules (transmission rule, optional
             recovery rule keyed by node and per-node query count) against a
             stepwise reference and, without a recovery rule, against BFS
             distance in the directed graph of successful contacts.
  step_law   E1: basic_discrete_SIR / basic_discrete_SIS, one time step at a
             time (the step is isolated with tmax = tmin + k): exact
             next-generation law of the real code == Reed-Frost product form.
  perc_traj  E1 over the whole run of percolation_based_discrete_SIR (<= 7
             edges): exact trajectory law == Reed-Frost trajectory law.
  percolate  E1 on percolate_network: every edge kept independently with
             probability p, same node set.
"""
import hashlib
import itertools
import random

import eonsim
from eonsim import cases, simcases
from eonsim.explorer import Explorer, Skip, compare_laws
from eonsim.refmodels import adjacency, bfs_levels, canon_history
from eonsim.seam import SCRIPTED, SEEDED, SimRandom, run_under
from eonsim.walks import V

EoN = eonsim.load_eon()
INF = float("inf")

PROPERTY = "C12"
LEVEL = "exploration"
RULE = ("dsir: seeded graphs N<=12 x keyed contact / recovery tables x initial I/R sets x tmin x whole-number horizons; "
        "step_law / perc_traj / percolate: seeded graphs with <= 8 infectious-susceptible contacts per step (<= 7 edges for "
        "whole-run enumeration), p in {0, 0.2, 0.5, 0.8, 1}; the draw tree of the step (run) is enumerated as the local "
        "oracle. distinct = digest of (case, state or table seed); non-trivial = at least one contact is tested.")
ASSUMPTIONS = ["random.random/choice have their documented distributions; each use of a uniform is a monotone step function",
               "discrete horizons are whole numbers of steps (the property's own restriction)"]
COMPONENTS = {"real": ["EoN.discrete_SIR", "EoN.basic_discrete_SIR", "EoN.basic_discrete_SIS",
                       "EoN.percolation_based_discrete_SIR", "EoN.percolate_network", "EoN.Simulation_Investigation"],
              "stub": ["random source (SimRandom scripted)", "user test_transmission / test_recovery (keyed tables)"]}


def plan(tier):
    if tier == "quick":
        return [("dsir", 20000), ("step_law", 800), ("perc_traj", 250), ("percolate", 500)]
    return [("dsir", 300000), ("step_law", 25000), ("perc_traj", 12000), ("percolate", 12000)]


# ------------------------------------------------------------------ dsir
def ref_discrete(case, labels):
    n = len(labels)
    tabs = simcases.Tables(case, labels)
    adj = adjacency(case["graph"])
    tmin, tmax = case["tmin"], (INF if case["tmax"] is None else case["tmax"])
    st = ["S"] * n
    for u in case["I0"]:
        st[u] = "I"
    for u in case["R0"]:
        st[u] = "R"
    hist = [([tmin], [st[u]]) for u in range(n)]
    rows = [(tmin, st.count("S"), st.count("I"), st.count("R"))]
    infecteds = [u for u in range(n) if st[u] == "I"]
    t = tmin
    infectors = {}
    while infecteds and t < tmax:
        new = {}
        for u in infecteds:
            for v, _ in adj[u]:
                if st[v] != "S":
                    continue
                if case.get("age_rule"):
                    ok = simcases.keyed(tabs.seed, "ca", u, v, tabs.count.get(("rec", u), 0)) < 0.45
                else:
                    ok = simcases.keyed(tabs.seed, "c", u, v) < 0.55
                if ok:
                    new.setdefault(v, []).append(u)
        stay = []
        for u in infecteds:
            if case.get("recovery_rule"):
                k = tabs._k("rec", u)
                rec = simcases.keyed(tabs.seed, "q", u, k) < 0.5
            else:
                rec = True
            if rec:
                st[u] = "R"
                if t + 1 <= tmax:
                    hist[u][0].append(t + 1); hist[u][1].append("R")
            else:
                stay.append(u)
        for v in new:
            st[v] = "I"
            infectors[(v, t)] = set(new[v])
            if t + 1 <= tmax:
                hist[v][0].append(t + 1); hist[v][1].append("I")
        infecteds = stay + list(new)
        t += 1
        rows.append((t, st.count("S"), st.count("I"), st.count("R")))
    return rows, hist, infectors


def one_dsir(case):
    G, labels = cases.build_graph(case["graph"])
    rows, hist, infectors = ref_discrete(case, labels)
    name = "discrete_SIR"
    ra, _, _, ta = simcases.call(case, False, sim=SimRandom(SEEDED, seed=2))
    rf, _, _, tf = simcases.call(case, True, sim=SimRandom(SEEDED, seed=2))
    from eonsim import sweeps as _sw
    bad = _sw.args_violation(case, ta) or _sw.args_violation(case, tf)
    if bad:
        return bad
    for r, mode in ((ra, "arrays"), (rf, "full-data")):
        if r.status == "exc":
            return [V("crash", "%s/exception/%s" % (name, type(r.exc).__name__), "%s mode: %s: %s" % (mode, type(r.exc).__name__, r.exc), case)]
        if r.status != "done":
            return []
    try:
        got = list(zip(*[[float(x) for x in ra.value[0]]] + [[int(x) for x in a] for a in ra.value[1:]]))
    except Exception:
        return [V("shape", "%s/shape" % name, "arrays mode returned %r" % (ra.value,), case)]
    if got != [tuple([float(r[0])] + list(r[1:])) for r in rows]:
        return [V("refine", "%s/rows-vs-reed-frost" % name, "arrays %r, stepwise reference %r (recovery rule: %r)"
                  % (got, rows, bool(case.get("recovery_rule"))), case)]
    inv = rf.value
    for u, lab in enumerate(labels):
        ts, ss = inv.node_history(lab)
        if canon_history([float(x) for x in ts], list(ss)) != canon_history([float(x) for x in hist[u][0]], hist[u][1]):
            return [V("refine", "%s/history-vs-reed-frost" % name, "node %r history %r/%r, reference %r"
                      % (lab, list(ts), list(ss), hist[u]), case)]
    index = {lab: i for i, lab in enumerate(labels)}
    for (t, u, v) in inv.transmissions():
        if u is None:
            continue
        if index[u] not in infectors.get((index[v], t), ()):
            return [V("infector", "%s/infector-not-a-successful-contact" % name,
                      "transmission (%r,%r,%r): successful infectious contacts of %r at step %r are %r"
                      % (t, u, v, v, t, sorted(labels[x] for x in infectors.get((index[v], t), ()))), case)]
    if not case.get("recovery_rule"):
        n = len(labels)
        adj = adjacency(case["graph"])
        tabs = simcases.Tables(case, labels)
        ok = [[v for v, _ in adj[u] if simcases.keyed(tabs.seed, "c", u, v) < 0.55] for u in range(n)]
        dist = bfs_levels(n, ok, case["I0"], case["R0"])
        tmax = INF if case["tmax"] is None else case["tmax"]
        for u, lab in enumerate(labels):
            ts, ss = inv.node_history(lab)
            it = [t for t, s in zip(ts, ss) if s == "I"]
            want = case["tmin"] + dist[u] if dist[u] < INF and case["tmin"] + dist[u] <= tmax and u not in case["R0"] else None
            if (it[0] if it else None) != want:
                return [V("refine", "%s/infection-step-vs-bfs" % name, "node %r infected at %r, tmin + BFS distance = %r"
                          % (lab, it[0] if it else None, want), case)]
            if it and "R" in ss:
                rt = [t for t, s in zip(ts, ss) if s == "R"][0]
                if rt != it[0] + 1:
                    return [V("refine", "%s/not-one-step-infectious" % name, "node %r history %r/%r" % (lab, list(ts), list(ss)), case)]
    return []


# -------------------------------------------------------------- step_law
def rf_next_law(adj, state, p, sis):
    """Exact Reed-Frost / discrete SIS next-state law."""
    n = len(state)
    inf = [u for u in range(n) if state[u] == "I"]
    expo = {}
    for u in inf:
        for v, _ in adj[u]:
            if state[v] == "S":
                expo[v] = expo.get(v, 0) + 1
    targets = sorted(expo)
    law = {}
    for bits in itertools.product((0, 1), repeat=len(targets)):
        pr = 1.0
        nxt = list(state)
        for u in inf:
            nxt[u] = "S" if sis else "R"
        for b, v in zip(bits, targets):
            q = 1.0 - (1.0 - p) ** expo[v]
            pr *= q if b else (1.0 - q)
            if b:
                nxt[v] = "I"
        if pr > 0:
            law[tuple(nxt)] = law.get(tuple(nxt), 0.0) + pr
    return law, sum(expo.values())


def gen_step_case(rng):
    simname = rng.choice(["basic_discrete_SIR", "basic_discrete_SIS"])
    spec = cases.gen_graph(rng, 2, 5, family=rng.choice(["path", "star", "cycle", "tree", "gnp", "twocomp", "complete"]),
                           label=rng.choice(cases.LABEL_SCHEMES), directed=rng.random() < 0.3)
    if len(spec["edges"]) > 6:
        spec["edges"] = spec["edges"][:6]
    n = len(spec["nodes"])
    idx = list(range(n))
    rng.shuffle(idx)
    # sometimes most of the population is infectious at the start
    I0 = idx[:rng.choice([1, 1, 2, max(1, n - 1), max(1, (n // 2) + 1)])]
    R0 = idx[len(I0):len(I0) + 1] if (simname.endswith("SIR") and rng.random() < 0.3) else []
    return {"sim": simname, "graph": spec, "p": rng.choice([0.2, 0.5, 0.8, 0.0, 1.0, 0.3]), "I0": I0, "R0": R0,
            "tmin": rng.choice([0, 5, -3]), "full": rng.random() < 0.6}


def one_step_walk(case, rng, max_steps, stats, keys):
    G, labels = cases.build_graph(case["graph"])
    n = len(labels)
    adj = adjacency(case["graph"])
    sis = case["sim"].endswith("SIS")
    fn = getattr(EoN, case["sim"])
    full = case["full"]
    tmin = case["tmin"]
    names = ["S", "I"] if sis else ["S", "I", "R"]
    st = ["S"] * n
    for u in case["I0"]:
        st[u] = "I"
    for u in case["R0"]:
        st[u] = "R"
    state = tuple(st)
    prefix = []

    def runner(k):
        def run(script):
            kw = dict(initial_infecteds=[labels[i] for i in case["I0"]], tmin=tmin, tmax=tmin + k, return_full_data=full)
            if case["R0"]:
                kw["initial_recovereds"] = [labels[i] for i in case["R0"]]
            return run_under(SimRandom(SCRIPTED, script=script), fn, G, case["p"], **kw)
        return run

    def outcome(res, k):
        if res.status != "done":
            return (res.status, type(res.exc).__name__ if res.exc is not None else None)
        if full:
            d = res.value.get_statuses(time=tmin + k)
            return tuple(d[x] for x in labels)
        arrs = res.value
        if len(arrs[0]) <= k:
            return ("short",)
        return tuple(int(a[k]) for a in arrs[1:])

    for k in range(1, max_steps + 1):
        law, ncontacts = rf_next_law(adj, state, case["p"], sis)
        if "I" not in state:
            break
        if ncontacts > 8:
            stats["skipped_too_many_contacts"] = stats.get("skipped_too_many_contacts", 0) + 1
            break
        def extract(exact):
            ex = Explorer(runner(k), lambda r: outcome(r, k), hints=[case["p"]], max_runs=200000 if exact else 6000, exact=exact)
            leaves = ex.explore(prefix)
            stats["probe_runs"] = stats.get("probe_runs", 0) + ex.runs
            stats["leaves"] = stats.get("leaves", 0) + len(leaves)
            code, by = {}, {}
            for lf in leaves:
                o = outcome(lf.res, k)
                code[o] = code.get(o, 0.0) + lf.mass
                by.setdefault(o, []).append(lf)
            return code, by
        code, by = extract(False)
        stats["states_probed"] = stats.get("states_probed", 0) + 1
        stats["contacts_enumerated"] = stats.get("contacts_enumerated", 0) + ncontacts
        if ncontacts:
            keys.add("step|%s|%s" % (hashlib.sha256(repr((case["sim"], case["graph"], case["p"], full)).encode()).hexdigest()[:10], "".join(state)))
        if full:
            ref = law
        else:
            ref = {}
            for s2, pr in law.items():
                key = tuple(s2.count(x) for x in names)
                ref[key] = ref.get(key, 0.0) + pr
        bad = compare_laws(code, ref, 1e-8)
        if bad:
            stats["exact_reexplorations"] = stats.get("exact_reexplorations", 0) + 1
            code, by = extract(True)
            bad = compare_laws(code, ref, 1e-8)
        if bad:
            e, pc, pr = bad[0]
            c = dict(case)
            c["prefix"] = [list(x) for x in prefix]
            c["step"] = k
            return [V("step_law", "%s/next-generation-law" % case["sim"],
                      "step %d from state %r (p=%r, %s mode): outcome %r has probability %.10g in the code, %.10g by the "
                      "Reed-Frost product form; code law %r" % (k, state, case["p"], "full-data" if full else "arrays", e, pc, pr,
                                                                 {repr(a): round(b, 9) for a, b in code.items()}), c)]
        # move on along a seeded leaf (full mode knows the node-level state)
        outs = sorted(by, key=repr)
        o = rng.choice(outs)
        lf = rng.choice(by[o])
        prefix = prefix + lf.path
        if full:
            state = o
        else:
            # arrays mode does not expose the node-level state: recover it from a full-data rerun is
            # not possible under the same script (different draws), so stop after one step
            break
    return []


# ------------------------------------------------------------- perc_traj
def gen_perc_case(rng):
    spec = cases.gen_graph(rng, 2, 5, family=rng.choice(["path", "star", "cycle", "tree", "gnp", "lollipop"]),
                           label=rng.choice(cases.LABEL_SCHEMES))
    if len(spec["edges"]) > 6:
        spec["edges"] = spec["edges"][:6]
    n = len(spec["nodes"])
    idx = list(range(n))
    rng.shuffle(idx)
    I0 = idx[:rng.choice([1, 1, 2])]
    R0 = idx[len(I0):len(I0) + 1] if rng.random() < 0.3 else []
    return {"sim": "percolation_based_discrete_SIR", "graph": spec, "p": rng.choice([0.2, 0.5, 0.8, 0.0, 1.0]),
            "I0": I0, "R0": R0, "tmin": rng.choice([0, 5, -3]), "full": rng.random() < 0.4}


def perc_reference(case, full):
    spec = case["graph"]
    n = len(spec["nodes"])
    edges = [(i, j) for i, j, _ in spec["edges"]]
    m = len(edges)
    p = case["p"]
    law = {}
    for bits in itertools.product((0, 1), repeat=m):
        pr = 1.0
        for b in bits:
            pr *= p if b else (1 - p)
        if pr <= 0:
            continue
        nb = [[] for _ in range(n)]
        for b, (i, j) in zip(bits, edges):
            if b:
                nb[i].append(j); nb[j].append(i)
        dist = bfs_levels(n, nb, case["I0"], case["R0"])
        if full:
            key = tuple(("R0" if u in case["R0"] else (None if dist[u] == INF else dist[u])) for u in range(n))
        else:
            rows = []
            top = max([d for d in dist if d < INF] + [0])
            for g in range(top + 2):
                I = sum(1 for d in dist if d == g)
                R = sum(1 for d in dist if d < g) + len(case["R0"])
                rows.append((n - I - R, I, R))
            key = tuple(rows)
        law[key] = law.get(key, 0.0) + pr
    return law


def one_perc(case):
    G, labels = cases.build_graph(case["graph"])
    full = case["full"]
    tmin = case["tmin"]

    def run(script):
        kw = dict(initial_infecteds=[labels[i] for i in case["I0"]], tmin=tmin, return_full_data=full)
        if case["R0"]:
            kw["initial_recovereds"] = [labels[i] for i in case["R0"]]
        return run_under(SimRandom(SCRIPTED, script=script), EoN.percolation_based_discrete_SIR, G, case["p"], **kw)

    def outcome(res):
        if res.status != "done":
            return (res.status, type(res.exc).__name__ if res.exc is not None else None)
        if full:
            out = []
            for u, lab in enumerate(labels):
                ts, ss = res.value.node_history(lab)
                if u in case["R0"]:
                    out.append("R0" if list(ss) == ["R"] else ("bad", tuple(ss)))
                    continue
                it = [t for t, s in zip(ts, ss) if s == "I"]
                out.append(None if not it else int(it[0] - tmin))
            return tuple(out)
        arrs = res.value
        return tuple((int(arrs[1][k]), int(arrs[2][k]), int(arrs[3][k])) for k in range(len(arrs[0])))
    info = {"runs": 0, "leaves": 0}

    def extract(exact):
        ex = Explorer(run, outcome, hints=[case["p"]], max_runs=400000 if exact else 20000, exact=exact)
        leaves = ex.explore([])
        info["runs"] += ex.runs
        info["leaves"] += len(leaves)
        code = {}
        for lf in leaves:
            o = outcome(lf.res)
            code[o] = code.get(o, 0.0) + lf.mass
        return code
    code = extract(False)
    ref = perc_reference(case, full)
    bad = compare_laws(code, ref, 1e-8)
    if bad:
        info["exact"] = 1
        code = extract(True)
        bad = compare_laws(code, ref, 1e-8)
    if bad:
        e, pc, pr = bad[0]
        return [V("trajectory_law", "percolation_based_discrete_SIR/trajectory-law",
                  "p=%r, %s mode: trajectory %r has probability %.10g in the code, %.10g in the Reed-Frost reference; %d differ"
                  % (case["p"], "full-data" if full else "arrays", e, pc, pr, len(bad)), case)], info
    return [], info


# -------------------------------------------------------------- percolate
def one_percolate(case):
    G, labels = cases.build_graph(case["graph"])
    p = case["p"]
    index = {lab: i for i, lab in enumerate(labels)}

    def run(script):
        return run_under(SimRandom(SCRIPTED, script=script), EoN.percolate_network, G, p)

    def outcome(res):
        if res.status != "done":
            return (res.status, type(res.exc).__name__ if res.exc is not None else None)
        H = res.value
        if set(H.nodes()) != set(labels) or H.number_of_nodes() != len(labels) or H.is_directed():
            return ("bad-nodes", tuple(sorted(map(repr, H.nodes()))))
        return tuple(sorted(tuple(sorted((index[u], index[v]))) for u, v in H.edges()))
    info = {"runs": 0}

    def extract(exact):
        ex = Explorer(run, outcome, hints=[p], max_runs=400000 if exact else 20000, exact=exact)
        leaves = ex.explore([])
        info["runs"] += ex.runs
        code = {}
        for lf in leaves:
            o = outcome(lf.res)
            code[o] = code.get(o, 0.0) + lf.mass
        return code
    code = extract(False)
    edges = [tuple(sorted((i, j))) for i, j, _ in case["graph"]["edges"]]
    ref = {}
    for bits in itertools.product((0, 1), repeat=len(edges)):
        pr = 1.0
        for b in bits:
            pr *= p if b else (1 - p)
        if pr > 0:
            key = tuple(sorted(e for b, e in zip(bits, edges) if b))
            ref[key] = ref.get(key, 0.0) + pr
    bad = compare_laws(code, ref, 1e-8)
    if bad:
        code = extract(True)
        bad = compare_laws(code, ref, 1e-8)
    if bad:
        e, pc, pr = bad[0]
        return [V("percolate_law", "percolate_network/edge-law", "p=%r: edge set %r has probability %.10g in the code, %.10g "
                  "as independent edges" % (p, e, pc, pr), case)], info
    return [], info


# ---------------------------------------------------------------- driver
def run_one(family, rng, idx, tier):
    if family == "dsir":
        case = simcases.gen_case(rng, "discrete_SIR", nmax=12, buggify=False, allow_rho=False,
                                 horizon=rng.choice(["inf", "default", "finite", "finite", "at_tmin"]),
                                 directed=rng.random() < 0.3)
        case["det_rule"] = True
        case["age_rule"] = bool(case["recovery_rule"]) and rng.random() < 0.5
        v = one_dsir(case)
        h = hashlib.sha256(repr((case["graph"], case["tabseed"], case["I0"], case["R0"], case["tmin"], case["tmax"], case["recovery_rule"])).encode())
        out = {"viol": v, "stats": {"evaluations": 1, "with_recovery_rule": 1 if case["recovery_rule"] else 0},
               "keys": ["dsir|" + h.hexdigest()[:16]] if len(case["graph"]["edges"]) else []}
        if idx < 1:
            out["sample"] = case
        return out
    stats, keys = {}, set()
    try:
        if family == "step_law":
            case = gen_step_case(rng)
            v = one_step_walk(case, rng, 4, stats, keys)
            stats["evaluations"] = stats.get("states_probed", 0)
        elif family == "perc_traj":
            case = gen_perc_case(rng)
            v, info = one_perc(case)
            stats.update({"evaluations": 1, "probe_runs": info["runs"], "leaves": info["leaves"]})
            keys.add("perc|" + hashlib.sha256(repr(case).encode()).hexdigest()[:16])
        else:
            case = gen_perc_case(rng)
            v, info = one_percolate(case)
            stats.update({"evaluations": 1, "probe_runs": info["runs"]})
            keys.add("pn|" + hashlib.sha256(repr((case["graph"], case["p"])).encode()).hexdigest()[:16])
            case["percolate_only"] = True
    except Skip as e:
        return {"skipped": "skip: %s" % str(e)[:60], "stats": {"evaluations": 0}}
    out = {"viol": v, "stats": stats, "keys": sorted(keys)}
    if idx < 1:
        out["sample"] = case
    return out


def replay(case):
    if case.get("percolate_only"):
        return one_percolate(case)[0]
    if case["sim"] == "discrete_SIR":
        return one_dsir(case)
    if case["sim"] == "percolation_based_discrete_SIR":
        return one_perc(case)[0]
    # step law: re-probe the stored step
    stats, keys = {}, set()
    return one_step_walk(case, random.Random(7), case.get("step", 4), stats, keys)
