"""C18 - Simulations are reproducible from the random seeds.

Here the REAL generators are used (random.seed(s); numpy.random.seed(s)), no
seam.

Families
  repeat   per simulator: the same seeded call three times in one process ->
           identical outputs and identical end states of both global
           generators (so no other entropy source is consumed and nothing is
           carried between calls); continuous-time simulators: the arrays of
           the plain mode equal the summary of the full-data mode.
  xproc    E6: batches of continuous-time cases with string / mixed node names
           and string statuses are executed in fresh interpreters started with
           PYTHONHASHSEED 0, 1, 4242 and random; output digests must agree.
"""
import hashlib
import json
import os
import subprocess
import sys

import numpy as np

import eonsim
from eonsim import history, simcases, xproc
from eonsim.seam import RealSim
from eonsim.walks import V
from checks.c04 import tune

PROPERTY = "C18"
LEVEL = "exploration"
RULE = ("repeat: per simulator seeded swarm of cases (as C04, real generators); xproc: batches of 40 continuous-time cases "
        "with string/mixed labels in four fresh interpreters each. distinct = digest of (case, seed); non-trivial = the run "
        "produced at least one event after tmin.")
ASSUMPTIONS = ["user callbacks handed to the simulators are deterministic and return neighbours in adjacency order, so that "
               "user-side set iteration is not blamed on EoN",
               "cross-interpreter clause is claimed for the continuous-time simulators only, as the property states"]
COMPONENTS = {"real": ["all twelve EoN simulators", "Python's random and numpy.random global generators (real, seeded)",
                       "fresh /venv/bin/python child interpreters with chosen PYTHONHASHSEED"],
              "stub": ["user callbacks (keyed tables)"]}
SIM_LIST = sorted(simcases.SIMS)
HASHSEEDS = ["0", "1", "4242", "random"]
BATCH = 40


def plan(tier):
    if tier == "quick":
        return [("repeat:" + s, 400) for s in SIM_LIST] + [("xproc", 16)]
    return [("repeat:" + s, 8000) for s in SIM_LIST] + [("xproc", 400)]


def gen(rng, simname, force_str=False):
    case = tune(simcases.gen_case(rng, simname, buggify=False), rng)
    case["seam"] = {"mode": "real"}
    case["seed"] = rng.getrandbits(31)
    if force_str and simcases.SIMS[simname][2] and case.get("I0") is not None and len(case["graph"]["nodes"]) >= 3 \
            and rng.random() < 0.3:
        # (cross-interpreter family only: there just the output digests of the same call are compared.
        # When the random index case happens to be an initially recovered node the unchanged code is in
        # an inconsistent state of its own making - outside every property - so the in-process clauses
        # are not judged on this input.)
        # no initial_infecteds, no rho: one random index case; most of the population initially recovered
        n = len(case["graph"]["nodes"])
        idx = list(range(n))
        rng.shuffle(idx)
        case["I0"] = None
        case["rho"] = None
        case["R0"] = idx[:max(1, (n // 2) + 1)]
    if case.get("infl_kind") == "set":
        # a user-side set of string labels iterates in hash order: that is the user's nondeterminism,
        # not EoN's - the harness hands over ordered collections in this check
        case["infl_kind"] = "tuple"
    if force_str:
        spec = case["graph"]
        n = len(spec["nodes"])
        names = ["v%d" % i if (i % 3 or rng.random() < 0.5) else "node-%d" % i for i in range(n)]
        rng.shuffle(names)
        spec["nodes"] = names
        spec["label"] = "str"
    return case


def one_repeat(case):
    name = case["sim"]
    cont = simcases.SIMS[name][0] == "cont"
    out = []
    info = {"events": 0}
    xproc.ENTROPY_CALLS[0] = 0
    for full in (False, True):
        d1, s1 = xproc.run_real(case, full, case["seed"])
        d2, s2 = xproc.run_real(case, full, case["seed"])
        # a different call in between must not matter (no state carried between calls)
        xproc.run_real(case, not full, case["seed"] + 1)
        d3, s3 = xproc.run_real(case, full, case["seed"])
        if not (d1 == d2 == d3):
            out.append(V("repeat", "%s/not-reproducible" % name,
                         "return_full_data=%r, seed %d: output digests %s / %s / %s" % (full, case["seed"], d1, d2, d3), case))
            return out, info
        if not (s1 == s2 == s3):
            out.append(V("repeat", "%s/generator-state-differs" % name,
                         "return_full_data=%r: the global generators end in different states on identical calls "
                         "(%s / %s / %s)" % (full, s1, s2, s3), case))
            return out, info
    if xproc.ENTROPY_CALLS[0]:
        out.append(V("entropy", "%s/uses-os-entropy" % name,
                     "the simulator asked the operating system for entropy %d time(s) (os.urandom / SystemRandom / "
                     "default_rng): randomness must come from random and numpy.random only" % xproc.ENTROPY_CALLS[0], case))
        return out, info
    if cont:
        import random
        random.seed(case["seed"]); np.random.seed(case["seed"])
        ra, G, labels, _ = simcases.call(case, False, sim=RealSim())
        random.seed(case["seed"]); np.random.seed(case["seed"])
        rf, _, _, _ = simcases.call(case, True, sim=RealSim())
        if ra.status == "done" and rf.status == "done":
            try:
                t, cols, names = history.arrays_of(case, ra.value)
                at, ac = history.collapse_rows(t, cols, names)
                st, sd = rf.value.summary()
                st = [float(x) for x in st]
                sd = {k: [int(x) for x in v] for k, v in sd.items()}
                info["events"] = len(t) - 1
                same = (st == at) and all(sd.get(nm) == ac[nm] for nm in names)
            except Exception as e:
                same = False
            if not same:
                out.append(V("flag", "%s/full-data-flag-changes-result" % name,
                             "seed %d: arrays mode and full-data mode describe different epidemics" % case["seed"], case))
        elif ra.status != rf.status:
            out.append(V("flag", "%s/full-data-flag-changes-outcome" % name, "arrays: %r ; full: %r" % (ra, rf), case))
    else:
        import random
        random.seed(case["seed"]); np.random.seed(case["seed"])
        ra, G, labels, _ = simcases.call(case, False, sim=RealSim())
        if ra.status == "done":
            info["events"] = len(ra.value[0]) - 1
    return out, info


def one_xproc(jobs):
    """Run the batch in four fresh interpreters; compare digests."""
    verif = eonsim.VERIF
    results = {}
    payload = json.dumps(jobs)
    for hs in HASHSEEDS:
        env = dict(os.environ)
        env["PYTHONHASHSEED"] = hs
        env["PYTHONPATH"] = verif
        env["PYTHONDONTWRITEBYTECODE"] = "1"
        env["PYTHONWARNINGS"] = "ignore"
        env["MPLBACKEND"] = "Agg"
        p = subprocess.run([sys.executable, "-m", "eonsim.xproc"], input=payload.encode(), stdout=subprocess.PIPE,
                           stderr=subprocess.PIPE, env=env, cwd=verif, timeout=600)
        if p.returncode != 0:
            raise RuntimeError("child interpreter failed: %s" % p.stderr.decode()[-800:])
        results[hs] = json.loads(p.stdout.decode())
    out = []
    base = results[HASHSEEDS[0]]
    for k, job in enumerate(jobs):
        ds = {hs: results[hs][k][0] for hs in HASHSEEDS}
        if len(set(ds.values())) != 1:
            out.append(V("xproc", "%s/depends-on-hash-seed" % job["case"]["sim"],
                         "return_full_data=%r seed %d: output digests per PYTHONHASHSEED %r" % (job["full"], job["seed"], ds),
                         {"xjob": job}))
    return out, base


def run_one(family, rng, idx, tier):
    if family == "xproc":
        jobs = []
        for k in range(BATCH):
            simname = simcases.CONT[k % len(simcases.CONT)]
            case = gen(rng, simname, force_str=(simname not in ("Gillespie_simple_contagion", "Gillespie_complex_contagion")))
            if simname == "Gillespie_simple_contagion" and k % 16 < 8:
                # a busy epidemic on a dense DIRECTED network with string names and string statuses:
                # many nodes have several in-neighbours whose pairs are re-inserted in one update
                from eonsim import cases as _cases, contagion as _cont
                c2 = _cont.gen_simple_case(rng, nmax=8, template=rng.choice(["SIS", "SIRS", "SIR", "SEIR"]))
                spec = _cases.gen_graph(rng, 5, 8, directed=True, family=rng.choice(["complete", "gnp", "gnp"]),
                                        edge_w="tenth", node_w="tenth", extra_edge_attrs={"w2": "tenth"})
                for a in spec["nattr"]:
                    a["nw2"] = _cases.draw_weight(rng, "tenth")
                n2 = len(spec["nodes"])
                sts = [_cont.dec_status(x) for x in c2["statuses"]]
                for x in c2["spont"]:
                    x[2] = max(x[2], 0.3) if x[2] else 0.7
                for x in c2["induced"]:
                    x[3] = max(x[3], 0.3) if x[3] else 1.0
                case.update({kk: c2[kk] for kk in ("statuses", "spont", "induced", "ret", "ic_type", "template")})
                case["graph"] = spec
                case["IC"] = [_cont.enc_status(rng.choice(sts)) for _ in range(n2)]
                case["tmax"] = case["tmin"] + 4.0
            if simname in ("Gillespie_simple_contagion", "Gillespie_complex_contagion"):
                # string node names for the generic simulators as well
                spec = case["graph"]
                spec["nodes"] = ["w%d" % i for i in range(len(spec["nodes"]))]
                spec["label"] = "str"
            jobs.append({"case": case, "full": bool(k % 2), "seed": case["seed"]})
        v, base = one_xproc(jobs)
        keys = ["x|%s|%s" % (hashlib.sha256(json.dumps(j["case"], sort_keys=True, default=repr).encode()).hexdigest()[:12], d[0])
                for j, d in zip(jobs, base) if not str(d[0]).startswith("exc")]
        return {"viol": v, "stats": {"evaluations": len(jobs) * len(HASHSEEDS), "child_interpreters": len(HASHSEEDS),
                                     "xproc_cases": len(jobs)}, "keys": keys,
                "sample": jobs[0] if idx < 1 else None}
    simname = family.split(":", 1)[1]
    case = gen(rng, simname)
    v, info = one_repeat(case)
    out = {"viol": v, "stats": {"evaluations": 7}}
    if info["events"] > 0:
        out["keys"] = ["r|" + hashlib.sha256(json.dumps(case, sort_keys=True, default=repr).encode()).hexdigest()[:16]]
    if idx < 1:
        out["sample"] = case
    return out


def replay(case):
    if "xjob" in case:
        return one_xproc([case["xjob"]])[0]
    return one_repeat(case)[0]
