"""C17 - Percolation-based probability/size estimators compute what they document.

Families
  from_dir_perc  seeded directed graphs H (no edges, several equally large
                 strongly connected components, all label types): the result
                 of estimate_SIR_prob_size_from_dir_perc must be
                 (|in(C)|/N, |out(C)|/N) for *a* largest SCC C (own Kosaraju +
                 BFS), both in [0,1].
  bond           E1 on estimate_SIR_prob_size(G,p), <= 7 edges: exact law of
                 the returned pair == law of (largest component fraction x2)
                 of the bond-percolated network.
  rules          estimate_nonMarkov_SIR_prob_size (xi/zeta/transmission) and
                 estimate_nonMarkov_SIR_prob_size_with_timing under keyed
                 tables: the percolated graph is known from the tables;
                 nonMarkov_directed_percolate_network has G's nodes and
                 u->v exactly when the rule says so.
  directed       estimate_directed_SIR_prob_size under a seeded seam: range,
                 granularity 1/N and the deterministic degenerate forms.
"""
import hashlib
import itertools
import random

import networkx as nx

import eonsim
from eonsim import cases, simcases
from eonsim.explorer import Explorer, Skip, compare_laws
from eonsim.seam import SCRIPTED, SEEDED, SimRandom, run_under
from eonsim.walks import V

EoN = eonsim.load_eon()

PROPERTY = "C17"
LEVEL = "exploration"
RULE = ("seeded directed graphs N<=9 / contact networks N<=10 with keyed rule tables; F6 varies label type and insertion order "
        "(which of several equally large SCCs networkx meets first). bond: draw tree of the whole call enumerated. distinct = "
        "digest of the case; non-trivial = the (percolated) graph has at least one edge.")
ASSUMPTIONS = ["claimed for the part with a schedule in it (percolation draws, user rules); estimate_SIR_prob_size_from_dir_perc "
               "itself is a pure function, checked as part of the oracle chain",
               "any largest strongly connected component is an admissible choice"]
COMPONENTS = {"real": ["EoN.estimate_SIR_prob_size", "EoN.estimate_SIR_prob_size_from_dir_perc", "EoN.estimate_directed_SIR_prob_size",
                       "EoN.estimate_nonMarkov_SIR_prob_size", "EoN.estimate_nonMarkov_SIR_prob_size_with_timing",
                       "EoN.nonMarkov_directed_percolate_network", "networkx SCC / descendants / ancestors"],
              "stub": ["random source (scripted for bond percolation, seeded otherwise)", "user rules xi/zeta/transmission, delay/duration tables"]}


def plan(tier):
    if tier == "quick":
        return [("from_dir_perc", 20000), ("bond", 160), ("rules", 15000), ("directed", 8000)]
    return [("from_dir_perc", 200000), ("bond", 1600), ("rules", 150000), ("directed", 80000)]


# ---------------------------------------------------------------- own graph algorithms
def sccs(n, out):
    order, seen = [], [False] * n
    for s in range(n):
        if seen[s]:
            continue
        stack = [(s, 0)]
        seen[s] = True
        while stack:
            u, k = stack.pop()
            if k < len(out[u]):
                stack.append((u, k + 1))
                v = out[u][k]
                if not seen[v]:
                    seen[v] = True
                    stack.append((v, 0))
            else:
                order.append(u)
    inn = [[] for _ in range(n)]
    for u in range(n):
        for v in out[u]:
            inn[v].append(u)
    comp = [-1] * n
    comps = []
    for s in reversed(order):
        if comp[s] >= 0:
            continue
        c = len(comps)
        comp[s] = c
        members = [s]
        stack = [s]
        while stack:
            u = stack.pop()
            for v in inn[u]:
                if comp[v] < 0:
                    comp[v] = c
                    members.append(v)
                    stack.append(v)
        comps.append(members)
    return comps, inn


def reach(start, nb):
    seen = set(start)
    stack = list(start)
    while stack:
        u = stack.pop()
        for v in nb[u]:
            if v not in seen:
                seen.add(v)
                stack.append(v)
    return seen


def admissible(n, out):
    comps, inn = sccs(n, out)
    big = max(len(c) for c in comps)
    ans = set()
    for c in comps:
        if len(c) == big:
            ans.add((len(reach(c, inn)) / float(n), len(reach(c, out)) / float(n)))
    return ans, sum(1 for c in comps if len(c) == big), big


def check_pair(name, got, n, out, case):
    try:
        pe, ar = got
        pe, ar = float(pe), float(ar)
    except Exception:
        return [V("shape", "%s/shape" % name, "returned %r" % (got,), case)]
    ans, ties, big = admissible(n, out)
    if not (0.0 <= pe <= 1.0 and 0.0 <= ar <= 1.0):
        return [V("range", "%s/out-of-range" % name, "returned (%r, %r)" % (pe, ar), case)]
    if not any(abs(pe - a) < 1e-12 and abs(ar - b) < 1e-12 for a, b in ans):
        return [V("estimate", "%s/not-in-out-of-largest-scc" % name,
                  "returned (PE, AR) = (%r, %r); admissible for a largest SCC (size %d, %d candidates): %r"
                  % (pe, ar, big, ties, sorted(ans)), case)]
    return []


# ---------------------------------------------------------------- families
def gen_digraph(rng):
    kind = rng.choice(["random", "random", "noedges", "cycles", "dag", "two_equal"])
    n = rng.randint(1, 9)
    labels = cases.make_labels(rng, n, rng.choice(cases.LABEL_SCHEMES))
    edges = []
    if kind == "random":
        p = rng.choice([0.15, 0.3, 0.5])
        edges = [(i, j) for i in range(n) for j in range(n) if i != j and rng.random() < p]
    elif kind == "dag":
        edges = [(i, j) for i in range(n) for j in range(i + 1, n) if rng.random() < 0.4]
    elif kind in ("cycles", "two_equal"):
        k = rng.choice([2, 3]) if n >= 4 else 1
        groups = [list(range(g * k, g * k + k)) for g in range(n // max(1, k))]
        for g in groups:
            if len(g) > 1:
                edges += [(g[i], g[(i + 1) % len(g)]) for i in range(len(g))]
        for a in range(len(groups) - 1):
            if rng.random() < 0.5:
                edges.append((rng.choice(groups[a]), rng.choice(groups[a + 1])))
    rng.shuffle(edges)
    order = list(range(n))
    rng.shuffle(order)
    return {"kind": kind, "nodes": [cases.enc_label(x) for x in labels], "order": order, "edges": edges}


def one_from_dir_perc(case):
    labels = [cases.dec_label(x) for x in case["nodes"]]
    n = len(labels)
    H = nx.DiGraph()
    for i in case["order"]:
        H.add_node(labels[i])
    for i, j in case["edges"]:
        H.add_edge(labels[i], labels[j])
    out = [[] for _ in range(n)]
    for i, j in case["edges"]:
        out[i].append(j)
    r = run_under(SimRandom(SEEDED, seed=1), EoN.estimate_SIR_prob_size_from_dir_perc, H)
    if r.status != "exc" and r.status != "done":
        return []        # not under the harness's control (seam limit): never a verdict
    if r.status != "done":
        return [V("crash", "estimate_SIR_prob_size_from_dir_perc/exception", "%r" % (r,), case)]
    return check_pair("estimate_SIR_prob_size_from_dir_perc", r.value, n, out, case)


def one_bond(case):
    G, labels = cases.build_graph(case["graph"])
    n = len(labels)
    p = case["p"]

    def run(script):
        return run_under(SimRandom(SCRIPTED, script=script), EoN.estimate_SIR_prob_size, G, p)

    def outcome(res):
        if res.status != "done":
            return (res.status, type(res.exc).__name__ if res.exc is not None else None)
        try:
            a, b = res.value
            return (round(float(a) * n, 9), round(float(b) * n, 9))
        except Exception:
            return ("shape", repr(res.value))
    info = {"runs": 0}

    def extract(exact):
        ex = Explorer(run, outcome, hints=[p], exact=exact, max_runs=400000 if exact else 20000)
        leaves = ex.explore([])
        info["runs"] += ex.runs
        code = {}
        for lf in leaves:
            o = outcome(lf.res)
            code[o] = code.get(o, 0.0) + lf.mass
        return code
    edges = [(i, j) for i, j, _ in case["graph"]["edges"]]
    ref = {}
    for bits in itertools.product((0, 1), repeat=len(edges)):
        pr = 1.0
        for b in bits:
            pr *= p if b else (1 - p)
        if pr <= 0:
            continue
        nb = [[] for _ in range(n)]
        for b, (i, j) in zip(bits, edges):
            if b:
                nb[i].append(j); nb[j].append(i)
        best, seen = 0, set()
        for s in range(n):
            if s not in seen:
                comp = reach([s], nb)
                seen |= comp
                best = max(best, len(comp))
        k = (float(best), float(best))
        ref[k] = ref.get(k, 0.0) + pr
    code = extract(False)
    bad = compare_laws(code, ref, 1e-8)
    if bad:
        code = extract(True)
        bad = compare_laws(code, ref, 1e-8)
    if bad:
        e, pc, pr = bad[0]
        return [V("estimate_law", "estimate_SIR_prob_size/law", "p=%r: N*(PE,AR) = %r has probability %.10g in the code, %.10g for "
                  "the largest component of the bond-percolated network" % (p, e, pc, pr), case)], info
    return [], info


def one_rules(case):
    G, labels = cases.build_graph(case["graph"])
    n = len(labels)
    seed = case["tabseed"]
    out = []
    # xi / zeta / transmission
    xi = {labels[i]: simcases.keyed(seed, "xi", i) for i in range(n)}
    ze = {labels[i]: simcases.keyed(seed, "ze", i) for i in range(n)}
    thr = case["thr"]
    tr = lambda x, z: x * z > thr  # noqa: E731
    adj = [[labels.index(v) for v in G.neighbors(labels[u])] for u in range(n)]
    outs = [[v for v in adj[u] if tr(xi[labels[u]], ze[labels[v]])] for u in range(n)]
    H = EoN.nonMarkov_directed_percolate_network(G, xi, ze, tr)
    name = "nonMarkov_directed_percolate_network"
    if not H.is_directed() or set(H.nodes()) != set(labels) or H.number_of_nodes() != n:
        return [V("builder", "%s/node-set" % name, "returned nodes %r, G has %r" % (list(H.nodes()), labels), case)]
    want = sorted((u, v) for u in range(n) for v in outs[u])
    index = {lab: i for i, lab in enumerate(labels)}
    got = sorted((index[u], index[v]) for u, v in H.edges())
    if got != want:
        return [V("builder", "%s/edge-rule" % name, "edges %r, rule gives %r" % (got, want), case)]
    r = run_under(SimRandom(SEEDED, seed=1), EoN.estimate_nonMarkov_SIR_prob_size, G, xi, ze, tr)
    if r.status != "exc" and r.status != "done":
        return []        # not under the harness's control (seam limit): never a verdict
    if r.status != "done":
        return [V("crash", "estimate_nonMarkov_SIR_prob_size/exception", "%r" % (r,), case)]
    out += check_pair("estimate_nonMarkov_SIR_prob_size", r.value, n, outs, case)
    if out:
        return out
    # timing variant
    tabs = simcases.Tables(case, labels)
    outs2 = [[v for v in adj[u] if tabs.sir_delay(labels[u], labels[v]) <= tabs.sir_duration(labels[u])] for u in range(n)]
    tabs.calls = []
    xa = ()
    if case.get("xargs"):
        xa = (("T", 1), ("R", 2, None))
        tabs.expect["trans"], tabs.expect["rec"] = xa
    r = run_under(SimRandom(SEEDED, seed=1), EoN.estimate_nonMarkov_SIR_prob_size_with_timing, G,
                  tabs.sir_trans_time, tabs.sir_rec_time, *xa)
    if tabs.bad_args:
        from eonsim import sweeps as _sw
        return _sw.args_violation(dict(case, sim="estimate_nonMarkov_SIR_prob_size_with_timing"), tabs)
    if r.status == "done":
        # duration(u) is ONE value per node: a (possibly random) user rule must be asked exactly once
        # per node, and the delay rule once per ordered neighbour pair
        nrec = {}
        for c in tabs.calls:
            if c[0] == "rec":
                nrec[c[1]] = nrec.get(c[1], 0) + 1
        bad = [u for u in labels if nrec.get(u, 0) != 1]
        if bad:
            return [V("rule_calls", "estimate_nonMarkov_SIR_prob_size_with_timing/duration-rule-not-asked-once-per-node",
                      "rec_time_fxn was called %r times for node %r (one infectious duration per node is what the percolated "
                      "graph is defined by)" % (nrec.get(bad[0], 0), bad[0]), case)]
    if r.status != "exc" and r.status != "done":
        return []        # not under the harness's control (seam limit): never a verdict
    if r.status != "done":
        return [V("crash", "estimate_nonMarkov_SIR_prob_size_with_timing/exception", "%r" % (r,), case)]
    return check_pair("estimate_nonMarkov_SIR_prob_size_with_timing", r.value, n, outs2, case)


def one_directed(case):
    G, labels = cases.build_graph(case["graph"])
    n = len(labels)
    r = run_under(SimRandom(SEEDED, seed=case["seam"]["seed"]), EoN.estimate_directed_SIR_prob_size, G, case["tau"], case["gamma"])
    name = "estimate_directed_SIR_prob_size"
    if r.status != "exc" and r.status != "done":
        return []        # not under the harness's control (seam limit): never a verdict
    if r.status != "done":
        return [V("crash", "%s/exception" % name, "%r" % (r,), case)]
    try:
        pe, ar = float(r.value[0]), float(r.value[1])
    except Exception:
        return [V("shape", "%s/shape" % name, "returned %r" % (r.value,), case)]
    if not (0 < pe <= 1 and 0 < ar <= 1) or abs(pe * n - round(pe * n)) > 1e-9 or abs(ar * n - round(ar * n)) > 1e-9:
        return [V("range", "%s/out-of-range" % name, "returned (%r,%r), N=%d" % (pe, ar, n), case)]
    adj = [[labels.index(v) for v in G.neighbors(labels[u])] for u in range(n)]
    if case["tau"] == 0 and case["gamma"] > 0:
        return check_pair(name, r.value, n, [[] for _ in range(n)], case)
    if case["gamma"] == 0 and case["tau"] > 0:
        return check_pair(name, r.value, n, adj, case)
    return []


def run_one(family, rng, idx, tier):
    stats = {"evaluations": 1}
    keys = []
    try:
        if family == "from_dir_perc":
            case = gen_digraph(rng)
            v = one_from_dir_perc(case)
            n = len(case["nodes"])
            out = [[] for _ in range(n)]
            for i, j in case["edges"]:
                out[i].append(j)
            ans, ties, big = admissible(n, out)
            if ties > 1:
                stats["probe_several_equally_large_scc"] = 1
            if case["edges"]:
                keys = ["h|" + hashlib.sha256(repr(case).encode()).hexdigest()[:16]]
        elif family == "bond":
            spec = cases.gen_graph(rng, 2, 6, label=rng.choice(cases.LABEL_SCHEMES))
            spec["edges"] = spec["edges"][:7]
            case = {"graph": spec, "p": rng.choice([0.0, 0.2, 0.5, 0.8, 1.0]), "fam": "bond"}
            v, info = one_bond(case)
            stats["probe_runs"] = info["runs"]
            if spec["edges"]:
                keys = ["b|" + hashlib.sha256(repr(case).encode()).hexdigest()[:16]]
        elif family == "rules":
            case = simcases.gen_case(rng, "fast_nonMarkov_SIR", nmax=10, buggify=False, allow_rho=False, horizon="inf",
                                     directed=rng.random() < 0.35)
            case["thr"] = rng.choice([0.0, 0.1, 0.3, 0.6])
            case["fam"] = "rules"
            v = one_rules(case)
            if case["graph"]["edges"]:
                keys = ["r|" + hashlib.sha256(repr((case["graph"], case["tabseed"], case["thr"])).encode()).hexdigest()[:16]]
        else:
            case = simcases.gen_case(rng, "fast_SIR", nmax=10, buggify=False, allow_rho=False, horizon="inf")
            if rng.random() < 0.3:
                case["tau"], case["gamma"] = (0.0, 0.7) if rng.random() < 0.5 else (0.7, 0.0)
            case["fam"] = "directed"
            v = one_directed(case)
            if case["graph"]["edges"]:
                keys = ["d|" + hashlib.sha256(repr((case["graph"], case["tau"], case["gamma"], case["seam"]["seed"])).encode()).hexdigest()[:16]]
    except Skip as e:
        return {"skipped": "skip: %s" % str(e)[:60], "stats": {"evaluations": 0}}
    out = {"viol": v, "stats": stats, "keys": keys}
    if idx < 1:
        out["sample"] = case
    return out


def replay(case):
    if "order" in case:
        return one_from_dir_perc(case)
    if case.get("fam") == "bond":
        return one_bond(case)[0]
    if case.get("fam") == "rules":
        return one_rules(case)
    return one_directed(case)
