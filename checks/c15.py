"""C15 - Gillespie_complex_contagion always acts on up-to-date rates.

Family
  walk   E1: seeded walks with user models (SIR/SIS by rates, threshold
         contagion, long-range influence sets, multi-status chooser,
         node-dependent non-dyadic rates).  At every visited state the clock
         rate == sum of the user rate function over all nodes evaluated on the
         current statuses, jump law == rate(node)/sum, new status == chooser's
         answer, and the run returns exactly when all rates are zero (tmax=inf
         included).  After each walk: callback spies (arguments, statuses seen)
         and the arrays mode with a random subset of return_statuses.
"""
from eonsim import contagion, markov, walks
from eonsim.explorer import Skip

PROPERTY = "C15"
LEVEL = "exploration"
RULE = ("seeded swarm of user models x graphs N<=6 (all label types) x non-dyadic rates incl. 0 x initial statuses x "
        "tmin/tmax incl. inf; walks of up to 14 events probing each reached state by draw-tree enumeration. "
        "distinct = (case digest, status vector); non-trivial = probed.")
ASSUMPTIONS = [
    "random.random/choice/expovariate have their documented distributions",
    "each use of a uniform draw is a monotone step function of the draw",
    "user callbacks are pure functions of (G, node, status, parameters); the influence set covers every node whose rate can change",
]
COMPONENTS = {"real": ["EoN.Gillespie_complex_contagion", "EoN._ListDict_", "EoN.Simulation_Investigation", "networkx"],
              "stub": ["random source (SimRandom scripted)", "user callbacks rate_function/transition_choice/get_influence_set (harness models with recording spies)"]}


def plan(tier):
    return [("walk", 3500 if tier == "quick" else 100000)]


def run_one(family, rng, idx, tier):
    case = contagion.gen_complex_case(rng)
    ad = contagion.ComplexAdapter(case)
    stats, keys = {}, set()
    last = {"prefix": []}

    def case_of(prefix):
        c = dict(case)
        c["prefix"] = [list(e) for e in prefix]
        return c
    out = {}
    try:
        v = walks.walk(ad, rng, 14 if tier == "quick" else 20, stats, case_of, keys=keys, trace=last)
        if not v:
            v = contagion.check_complex_rows_and_spies(ad, last["prefix"], case_of, rng)
            stats["rows_and_spies_checked"] = 1
    except Skip as e:
        v = []
        out["skipped"] = "skip: %s" % str(e)[:60]
    stats["evaluations"] = stats.get("states_probed", 0)
    stats["model_%s" % case["model"]] = 1
    if case["tmax"] == float("inf"):
        stats["tmax_inf_walks"] = 1
    out.update({"viol": v, "stats": stats, "keys": sorted(keys), "simtime": float(stats.get("events_walked", 0))})
    if idx < 2:
        out["sample"] = case
    return out


def replay(case):
    import random
    ad = contagion.ComplexAdapter(case)
    prefix = markov.norm_prefix(case)

    def case_of(p):
        c = dict(case)
        c["prefix"] = [list(e) for e in p]
        return c
    v = contagion.check_complex_rows_and_spies(ad, prefix, case_of, random.Random(5)) if prefix else []
    if v:
        return v
    return markov.replay_walk(case, adapter_cls=contagion.ComplexAdapter, rows=False)


def research(case):
    """Minimisation support: fresh seeded walks on a (reduced) case."""
    import random
    c = {k: v for k, v in case.items() if k != "prefix"}
    for s in range(6):
        ad = contagion.ComplexAdapter(c)
        try:
            v = walks.walk(ad, random.Random(s), 14, {}, lambda p: dict(c, prefix=[list(e) for e in p]))
        except Exception:
            v = []
        if v:
            return v
    return []
