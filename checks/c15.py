"""C15 - Gillespie_complex_contagion always acts on up-to-date rates.

Family
  walk   E1: seeded walks with user models (SIR/SIS by rates, threshold
         contagion, long-range influence sets, multi-status chooser,
         node-dependent non-dyadic rates).  At every visited state the clock
         rate == sum of the user rate function over all nodes evaluated on the
         current statuses, jump law == rate(node)/sum, new status == chooser's
         answer, and the run returns exactly when all rates are zero (tmax=inf
         included).  After each walk: callback spies (arguments, statuses seen)
         and the arrays mode with a random subset of return_statuses.
"""
from eonsim import contagion, lawtest, markov, walks
from eonsim.explorer import Skip

PROPERTY = "C15"
LEVEL = "exploration"
RULE = ("seeded swarm of user models x graphs N<=6 (all label types) x non-dyadic rates incl. 0 x initial statuses x "
        "tmin/tmax incl. inf; walks of up to 14 events probing each reached state by draw-tree enumeration. "
        "distinct = (case digest, status vector); non-trivial = probed.")
ASSUMPTIONS = [
    "random.random/choice/expovariate have their documented distributions",
    "each use of a uniform draw is a monotone step function of the draw",
    "user callbacks are pure functions of (G, node, status, parameters); the influence set covers every node whose rate can change",
]
COMPONENTS = {"real": ["EoN.Gillespie_complex_contagion", "EoN._ListDict_", "EoN.Simulation_Investigation", "networkx"],
              "stub": ["random source (SimRandom scripted)", "user callbacks rate_function/transition_choice/get_influence_set (harness models with recording spies)"]}


# "The simulation stops exactly when all rates are zero or tmax is reached": a seeded batch of
# bounded-horizon runs that never finishes is a violation of C15 itself
TIMEOUT_IS_VIOLATION = ("law",)
TIMEOUT_NOTE = "every law configuration has tmax = 3, so each call must return"
LAW_N = {"quick": 10000, "thorough": 100000}
LAW_CFGS = {"quick": 18, "thorough": 54}
LAW_BATCHES = 4


def plan(tier):
    return [("walk", 3500 if tier == "quick" else 40000), ("law", LAW_CFGS[tier] * LAW_BATCHES)]


# implementation-agnostic back-up of the walks: seeded samples of the whole call
# against expm(Q T) of the generator defined by the user's rate function.
def law_cfgs(seed, tier):
    import random
    from eonsim import framework
    out, k = [], 0
    while len(out) < LAW_CFGS[tier] and k < 2000:
        rng = random.Random(framework.derive_int(seed, PROPERTY, "lawcfg", k))
        k += 1
        # every user model gets a law configuration
        case = contagion.gen_complex_case(rng, model=contagion.COMPLEX_MODELS[len(out) % len(contagion.COMPLEX_MODELS)])
        if not (2 <= len(case["graph"]["nodes"]) <= 5) or not case["graph"]["edges"]:
            continue
        case["tmin"] = 0
        case["tmax"] = 3.0
        case["T"] = [0.5, 2.0]
        ad = contagion.ComplexAdapter(dict(case, prefix=[]))
        if sum(ad.ref.enabled(ad.init_state).values()) <= 0:
            continue
        out.append(case)
    return out


_CFG = {}


def _cfgs(seed, tier):
    if (seed, tier) not in _CFG:
        _CFG[(seed, tier)] = law_cfgs(seed, tier)
    return _CFG[(seed, tier)]


def law_sample(case, n, seed):
    import eonsim
    EoN = eonsim.load_eon()
    ad = contagion.ComplexAdapter(dict(case, prefix=[]))
    IC = {lab: s for lab, s in zip(ad.labels, ad.init_state)}
    ret = list(case["ret"])
    labels = ad.labels

    def call():
        return EoN.Gillespie_complex_contagion(ad.G, ad.rate, ad.choose, ad.infl, IC, ret, tmin=0, tmax=case["tmax"],
                                               parameters=ad.params, return_full_data=True)

    def stat(inv):
        out = []
        for j, tt in enumerate(case["T"]):
            d = inv.get_statuses(time=tt)
            out.append((j, "".join(str(d[x]) for x in labels)))
        return out
    return lawtest.sample_counts(call, n, seed, stat)


def law_expected(case):
    ad = contagion.ComplexAdapter(dict(case, prefix=[]))
    return {j: {"".join(str(x) for x in s): p for s, p in lawtest.generic_dist_at(ad.ref, ad.init_state, tt).items()}
            for j, tt in enumerate(case["T"])}


def finalize(parts, tier, seed):
    cfgs = _cfgs(seed, tier)
    by = {}
    for (_f, _i), p in parts:
        d = by.setdefault(p["cfg"], {"n": 0, "counts": {}})
        d["n"] += p["n"]
        for k, v in p["counts"].items():
            d["counts"][k] = d["counts"].get(k, 0) + v
    tests, keys = [], []
    for j in sorted(by):
        for statname, dist in law_expected(cfgs[j]).items():
            counts = {eval(k)[1]: v for k, v in by[j]["counts"].items() if eval(k)[0] == statname}
            cells = lawtest.test_cells(by[j]["n"], counts, dist)
            tests.append(((j, statname), by[j]["n"], cells))
            keys.extend("law|%d|%s|%s" % (j, statname, c[0]) for c in cells)
    fails, ncells, worst = lawtest.decide(tests)
    viol = []
    for (label, k, o, n, p, pv) in fails[:3]:
        viol.append({"cls": "law", "key": "Gillespie_complex_contagion/law",
                     "msg": "config %d (model %s): T index %r, statuses %s observed %d of %d, master equation %.6g, p=%.3g"
                            % (label[0], cfgs[label[0]]["model"], label[1], k, o, n, p, pv),
                     "case": {"law_cfg": cfgs[label[0]], "n": n, "seed": seed, "cfg_index": label[0]}, "family": "law", "idx": label[0]})
    stats = {"law_cells_tested": ncells, "law_configs": len(by)}
    if worst:
        stats["law_worst_z"] = round(worst[0], 3)
    return {"viol": viol, "stats": stats, "keys": keys}


def run_one(family, rng, idx, tier):
    if family == "law":
        import os
        from eonsim import framework
        seed = int(os.environ.get("VERIF_SEED", framework.DEFAULT_SEED))
        cfgs = _cfgs(seed, tier)
        j, b = divmod(idx, LAW_BATCHES)
        if j >= len(cfgs):
            return {"skipped": "no law configuration", "stats": {"evaluations": 0}}
        n = LAW_N[tier]
        counts = law_sample(cfgs[j], n, rng.getrandbits(48))
        return {"partial": {"cfg": j, "n": n, "counts": {repr(k): v for k, v in counts.items()}},
                "stats": {"evaluations": n, "law_runs": n}}
    case = contagion.gen_complex_case(rng)
    ad = contagion.ComplexAdapter(case)
    stats, keys = {}, set()
    last = {"prefix": []}

    def case_of(prefix):
        c = dict(case)
        c["prefix"] = [list(e) for e in prefix]
        return c
    out = {}
    try:
        v = walks.walk(ad, rng, 14 if tier == "quick" else 20, stats, case_of, keys=keys, trace=last)
        if not v:
            v = contagion.check_complex_rows_and_spies(ad, last["prefix"], case_of, rng)
            stats["rows_and_spies_checked"] = 1
    except Skip as e:
        v = []
        out["skipped"] = "skip: %s" % str(e)[:60]
    stats["evaluations"] = stats.get("states_probed", 0)
    stats["model_%s" % case["model"]] = 1
    if case["tmax"] == float("inf"):
        stats["tmax_inf_walks"] = 1
    out.update({"viol": v, "stats": stats, "keys": sorted(keys), "simtime": float(stats.get("events_walked", 0))})
    if idx < 2:
        out["sample"] = case
    return out


def replay(case):
    import random
    if "law_cfg" in case:
        cfg, n = case["law_cfg"], case["n"]
        counts = law_sample(cfg, n, case["seed"] * 7919 + case["cfg_index"])
        tests = []
        for statname, dist in law_expected(cfg).items():
            c = {k[1]: v for k, v in counts.items() if k[0] == statname}
            tests.append(((0, statname), n, lawtest.test_cells(n, c, dist)))
        fails, _, _ = lawtest.decide(tests)
        return [{"cls": "law", "key": "Gillespie_complex_contagion/law", "msg": "replay %r" % (fails[0],), "case": case}] if fails else []
    ad = contagion.ComplexAdapter(case)
    prefix = markov.norm_prefix(case)

    def case_of(p):
        c = dict(case)
        c["prefix"] = [list(e) for e in p]
        return c
    v = contagion.check_complex_rows_and_spies(ad, prefix, case_of, random.Random(5)) if prefix else []
    if v:
        return v
    return markov.replay_walk(case, adapter_cls=contagion.ComplexAdapter, rows=False)


def research(case):
    """Minimisation support: fresh seeded walks on a (reduced) case."""
    import random
    c = {k: v for k, v in case.items() if k != "prefix"}
    for s in range(6):
        ad = contagion.ComplexAdapter(c)
        try:
            v = walks.walk(ad, random.Random(s), 14, {}, lambda p: dict(c, prefix=[list(e) for e in p]))
        except Exception:
            v = []
        if v:
            return v
    return []
