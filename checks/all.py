"""./check all [--tier quick|thorough]: run every claimed check in turn (sub-processes)."""
import os
import subprocess
import sys
import time

import eonsim

ALL = ["C01", "C02", "C03", "C04", "C05", "C09", "C10", "C11", "C12", "C13", "C14", "C15", "C16", "C17", "C18", "C19"]


def main(argv):
    here = os.path.join(eonsim.VERIF, "check")
    worst = 0
    for c in ALL:
        t0 = time.time()
        p = subprocess.run([sys.executable, here, c] + list(argv))
        print("== %s rc=%d %.1fs" % (c, p.returncode, time.time() - t0), flush=True)
        worst = max(worst, p.returncode)
    return worst
