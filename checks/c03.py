"""C03 - Gillespie_simple_contagion realises exactly the user-specified transitions.

Family
  walk   E1: seeded walks over reachable states under a seeded *program space*
         (random spontaneous / induced transition graphs, named models, plain /
         weight_label / rate_function transitions, directed and undirected
         contact networks).  At every visited state: clock rate == sum of
         rate*weight over enabled transitions, jump law == rate/total per
         (source, target, old->new), the event reported is the one selected
         and nothing else changed.  At the end of each walk the arrays mode is
         run on the same script with a random subset/order of return_statuses.
"""
from eonsim import contagion, markov, walks
from eonsim.explorer import Skip

PROPERTY = "C03"
LEVEL = "exploration"
RULE = ("seeded swarm over model specifications (random programs with 2-4 statuses incl. unsortable mixes, "
        "SIS/SIR/SIRS/SEIR/competing/cooperating/vaccination templates; each transition plain, weight_label or "
        "rate_function), contact networks N<=5 directed or undirected, initial statuses, tmin/tmax; each walk probes "
        "reachable states of the real code by draw-tree enumeration. distinct = (case digest, status vector); "
        "non-trivial = probed.")
ASSUMPTIONS = [
    "random.random/choice/expovariate have their documented distributions",
    "each use of a uniform draw is a monotone step function of the draw (breakpoints located to 2^-35)",
]
COMPONENTS = {"real": ["EoN.Gillespie_simple_contagion", "EoN._ListDict_", "EoN.Simulation_Investigation", "networkx"],
              "stub": ["random source (SimRandom scripted)", "user rate functions (pure functions of node/edge attributes)"]}


def plan(tier):
    return [("walk", 1600 if tier == "quick" else 60000)]


def run_one(family, rng, idx, tier):
    case = contagion.gen_simple_case(rng)
    ad = contagion.SimpleAdapter(case)
    stats, keys = {}, set()
    last = {"prefix": []}

    def case_of(prefix):
        c = dict(case)
        c["prefix"] = [list(e) for e in prefix]
        return c
    out = {}
    try:
        v = walks.walk(ad, rng, 10 if tier == "quick" else 14, stats, case_of, keys=keys,
                       prefer=contagion.simple_prefer, trace=last)
        if not v:
            v = contagion.check_counts(ad, last["prefix"], case_of, rng)
            stats["rows_checked"] = 1
    except Skip as e:
        v = []
        out["skipped"] = "skip: %s" % str(e)[:60]
    stats["evaluations"] = stats.get("states_probed", 0)
    stats["tmpl_%s" % (case["template"] or "mixed")] = 1
    if case["graph"]["directed"]:
        stats["directed_networks"] = 1
    stats["transitions_weighted"] = sum(1 for x in case["spont"] if x[3] != "plain") + \
        sum(1 for x in case["induced"] if x[4] != "plain")
    out.update({"viol": v, "stats": stats, "keys": sorted(keys), "simtime": float(stats.get("events_walked", 0))})
    if idx < 2:
        out["sample"] = case
    return out


def replay(case):
    import random
    ad = contagion.SimpleAdapter(case)
    prefix = markov.norm_prefix(case)

    def case_of(p):
        c = dict(case)
        c["prefix"] = [list(e) for e in p]
        return c
    v = contagion.check_counts(ad, prefix, case_of, random.Random(5)) if prefix else []
    if v:
        return v
    return markov.replay_walk(case, adapter_cls=contagion.SimpleAdapter, rows=False)


def research(case):
    """Minimisation support: fresh seeded walks on a (reduced) case."""
    import random
    c = {k: v for k, v in case.items() if k != "prefix"}
    for s in range(6):
        ad = contagion.SimpleAdapter(c)
        try:
            v = walks.walk(ad, random.Random(s), 10, {}, lambda p: dict(c, prefix=[list(e) for e in p]),
                           prefer=contagion.simple_prefer)
        except Exception:
            v = []
        if v:
            return v
    return []
