"""C03 - Gillespie_simple_contagion realises exactly the user-specified transitions.

Family
  walk   E1: seeded walks over reachable states under a seeded *program space*
         (random spontaneous / induced transition graphs, named models, plain /
         weight_label / rate_function transitions, directed and undirected
         contact networks).  At every visited state: clock rate == sum of
         rate*weight over enabled transitions, jump law == rate/total per
         (source, target, old->new), the event reported is the one selected
         and nothing else changed.  At the end of each walk the arrays mode is
         run on the same script with a random subset/order of return_statuses.
"""
from eonsim import contagion, lawtest, markov, walks
from eonsim.explorer import Skip

PROPERTY = "C03"
LEVEL = "exploration"
RULE = ("seeded swarm over model specifications (random programs with 2-4 statuses incl. unsortable mixes, "
        "SIS/SIR/SIRS/SEIR/competing/cooperating/vaccination templates; each transition plain, weight_label or "
        "rate_function), contact networks N<=5 directed or undirected, initial statuses, tmin/tmax; each walk probes "
        "reachable states of the real code by draw-tree enumeration. distinct = (case digest, status vector); "
        "non-trivial = probed.")
ASSUMPTIONS = [
    "random.random/choice/expovariate have their documented distributions",
    "each use of a uniform draw is a monotone step function of the draw (breakpoints located to 2^-35)",
]
COMPONENTS = {"real": ["EoN.Gillespie_simple_contagion", "EoN._ListDict_", "EoN.Simulation_Investigation", "networkx"],
              "stub": ["random source (SimRandom scripted)", "user rate functions (pure functions of node/edge attributes)"]}


LAW_N = {"quick": 10000, "thorough": 100000}
LAW_CFGS = {"quick": 16, "thorough": 64}
LAW_BATCHES = 4


def plan(tier):
    return [("walk", 1600 if tier == "quick" else 20000), ("law", LAW_CFGS[tier] * LAW_BATCHES)]


# ------------------------------------------------------------------ E3
# implementation-agnostic back-up of the E1 walks: seeded samples of the whole
# simulator against expm(Q T) of the specification's own generator (built by the
# reference interpreter on the reachable state space).
def big_star_cfg(rng):
    """A candidate list of ~60 pairs with two very heavy members: the law of the FIRST event is
    rate/total exactly, whatever the size of the network - and a selection routine whose behaviour
    depends on how long its rejection loop has been running shows up here (max/mean ~ 50)."""
    n = rng.randint(55, 70)
    nodes = list(range(n + 1))
    edges = []
    for i in range(1, n + 1):
        w = 1.0
        if i == 3:
            w = 4000.0
        elif i == 7:
            w = 1500.0
        edges.append([0, i, {"w": w, "w2": 1.0}])
    rng.shuffle(edges)
    spec = {"directed": False, "family": "star", "label": "int", "nodes": nodes,
            "nattr": [{"nw": 1.0, "nw2": 1.0} for _ in nodes], "edges": edges}
    return {"sim": "Gillespie_simple_contagion", "graph": spec, "statuses": ["S", "I", "R"],
            "spont": [["I", "R", 1.0, "plain", None]], "induced": [["I", "S", "I", 0.002, "label", "w"]],
            "IC": ["I"] + ["S"] * n, "ret": ["S", "I", "R"], "tmin": 0, "tmax": 0.6, "ic_type": "dict", "template": "big_star",
            "T": [], "first_event": True, "prime": False}


def law_cfgs(seed, tier):
    import random
    from eonsim import framework
    out = [big_star_cfg(random.Random(framework.derive_int(seed, PROPERTY, "bigstar", 0)))]
    j = 0
    k = 0
    while len(out) < LAW_CFGS[tier] and k < 2000:
        rng = random.Random(framework.derive_int(seed, PROPERTY, "lawcfg", k))
        k += 1
        case = contagion.gen_simple_case(rng, nmax=4)
        if len(case["statuses"]) > 4 or not case["graph"]["edges"]:
            continue
        if not (case["spont"] or case["induced"]):
            continue
        case["tmin"] = 0
        case["tmax"] = 3.0
        case["T"] = [0.5, 2.0]
        if len(out) % 3 == 0:
            # very heterogeneous weights inside one candidate list (max/mean >> 1): long rejection runs
            from eonsim import cases as _cases
            for e in case["graph"]["edges"]:
                e[2]["w"] = _cases.draw_weight(rng, "wide")
            for a in case["graph"]["nattr"]:
                a["nw"] = _cases.draw_weight(rng, "wide")
            for x in case["spont"]:
                if x[3] == "plain" and rng.random() < 0.7:
                    x[3], x[4] = "label", "nw"
                x[2] = min(x[2], 0.01) if x[3] == "label" and x[4] == "nw" else x[2]
            for x in case["induced"]:
                if x[4] == "plain" and rng.random() < 0.7:
                    x[4], x[5] = "label", "w"
                x[3] = min(x[3], 0.01) if x[4] == "label" and x[5] == "w" else x[3]
        # rates of 10 make the chain mix before T; keep them moderate
        for x in case["spont"]:
            x[2] = min(x[2], 1.3)
        for x in case["induced"]:
            x[3] = min(x[3], 1.3)
        ad = contagion.SimpleAdapter(dict(case, prefix=[]))
        if sum(ad.ref.enabled(ad.init_state).values()) <= 0:
            continue
        if lawtest.generic_dist_at(ad.ref, ad.init_state, 0.5) is None:
            continue
        out.append(case)
    return out


_CFG = {}


def _cfgs(seed, tier):
    if (seed, tier) not in _CFG:
        _CFG[(seed, tier)] = law_cfgs(seed, tier)
    return _CFG[(seed, tier)]


def law_sample(case, n, seed):
    import eonsim
    EoN = eonsim.load_eon()
    ad = contagion.SimpleAdapter(dict(case, prefix=[]))
    kw = dict(tmin=0, tmax=case["tmax"], return_full_data=True)
    if ad.spont_kwargs:
        kw["spont_kwargs"] = ad.spont_kwargs
    if ad.nbr_kwargs:
        kw["nbr_kwargs"] = ad.nbr_kwargs
    IC = ad._ic()
    ret = list(ad.ret)
    labels = ad.labels

    def call():
        return EoN.Gillespie_simple_contagion(ad.G, ad.H, ad.J, IC, ret, **kw)

    def stat(inv):
        out = []
        for j, tt in enumerate(case["T"]):
            d = inv.get_statuses(time=tt)
            out.append((j, repr(tuple(d[x] for x in labels))))
        if case.get("first_event"):
            best = None
            for x in labels:
                ts, ss = inv.node_history(x)
                if len(ts) > 1 and (best is None or ts[1] < best[0]):
                    best = (ts[1], x, ss[1])
            out.append(("first", repr((best[1], best[2])) if best else "none"))
        return out
    import io
    import sys
    old = sys.stdout
    sys.stdout = io.StringIO()
    try:
        return lawtest.sample_counts(call, n, seed, stat)
    finally:
        sys.stdout = old


def law_expected(case):
    ad = contagion.SimpleAdapter(dict(case, prefix=[]))
    if case.get("first_event"):
        import math
        ev = ad.ref.enabled(ad.init_state)
        tot = sum(ev.values())
        pnone = math.exp(-tot * (case["tmax"] - case["tmin"]))
        exp = {"none": pnone}
        for k, r in ev.items():
            node = ad.labels[k[1]] if k[0] == "sp" else ad.labels[k[2]]
            new = k[3] if k[0] == "sp" else k[4]
            key = repr((node, new))
            exp[key] = exp.get(key, 0.0) + (1 - pnone) * r / tot
        return {"first": exp}
    return {j: {repr(s): p for s, p in lawtest.generic_dist_at(ad.ref, ad.init_state, tt).items()}
            for j, tt in enumerate(case["T"])}


def finalize(parts, tier, seed):
    cfgs = _cfgs(seed, tier)
    by = {}
    for (_f, _i), p in parts:
        d = by.setdefault(p["cfg"], {"n": 0, "counts": {}})
        d["n"] += p["n"]
        for k, v in p["counts"].items():
            d["counts"][k] = d["counts"].get(k, 0) + v
    tests, keys = [], []
    for j in sorted(by):
        for statname, dist in law_expected(cfgs[j]).items():
            counts = {eval(k)[1]: v for k, v in by[j]["counts"].items() if eval(k)[0] == statname}
            cells = lawtest.test_cells(by[j]["n"], counts, dist)
            tests.append(((j, statname), by[j]["n"], cells))
            keys.extend("law|%d|%s|%s" % (j, statname, c[0]) for c in cells)
    fails, ncells, worst = lawtest.decide(tests)
    viol = []
    for (label, k, o, n, p, pv) in fails[:3]:
        viol.append({"cls": "law", "key": "Gillespie_simple_contagion/law",
                     "msg": "config %d (template %s): T index %r, statuses %s observed %d of %d, master equation %.6g, p=%.3g"
                            % (label[0], cfgs[label[0]].get("template"), label[1], k, o, n, p, pv),
                     "case": {"law_cfg": cfgs[label[0]], "n": n, "seed": seed, "cfg_index": label[0]}, "family": "law", "idx": label[0]})
    stats = {"law_cells_tested": ncells, "law_configs": len(by)}
    if worst:
        stats["law_worst_z"] = round(worst[0], 3)
    return {"viol": viol, "stats": stats, "keys": keys}


def run_one(family, rng, idx, tier):
    if family == "law":
        import os
        from eonsim import framework
        seed = int(os.environ.get("VERIF_SEED", framework.DEFAULT_SEED))
        cfgs = _cfgs(seed, tier)
        j, b = divmod(idx, LAW_BATCHES)
        if j >= len(cfgs):
            return {"skipped": "no law configuration", "stats": {"evaluations": 0}}
        n = LAW_N[tier]
        counts = law_sample(cfgs[j], n, rng.getrandbits(48))
        return {"partial": {"cfg": j, "n": n, "counts": {repr(k): v for k, v in counts.items()}},
                "stats": {"evaluations": n, "law_runs": n}}
    case = contagion.gen_simple_case(rng)
    ad = contagion.SimpleAdapter(case)
    stats, keys = {}, set()
    last = {"prefix": []}

    def case_of(prefix):
        c = dict(case)
        c["prefix"] = [list(e) for e in prefix]
        return c
    out = {}
    try:
        v = walks.walk(ad, rng, 10 if tier == "quick" else 14, stats, case_of, keys=keys,
                       prefer=contagion.simple_prefer, trace=last)
        if not v:
            v = contagion.check_counts(ad, last["prefix"], case_of, rng)
            stats["rows_checked"] = 1
    except Skip as e:
        v = []
        out["skipped"] = "skip: %s" % str(e)[:60]
    stats["evaluations"] = stats.get("states_probed", 0)
    stats["tmpl_%s" % (case["template"] or "mixed")] = 1
    if case["graph"]["directed"]:
        stats["directed_networks"] = 1
    stats["transitions_weighted"] = sum(1 for x in case["spont"] if x[3] != "plain") + \
        sum(1 for x in case["induced"] if x[4] != "plain")
    out.update({"viol": v, "stats": stats, "keys": sorted(keys), "simtime": float(stats.get("events_walked", 0))})
    if idx < 2:
        out["sample"] = case
    return out


def replay(case):
    import random
    if "law_cfg" in case:
        cfg, n = case["law_cfg"], case["n"]
        counts = law_sample(cfg, n, case["seed"] * 7919 + case["cfg_index"])
        tests = []
        for statname, dist in law_expected(cfg).items():
            c = {k[1]: v for k, v in counts.items() if k[0] == statname}
            tests.append(((0, statname), n, lawtest.test_cells(n, c, dist)))
        fails, _, _ = lawtest.decide(tests)
        return [{"cls": "law", "key": "Gillespie_simple_contagion/law", "msg": "replay %r" % (fails[0],), "case": case}] if fails else []
    ad = contagion.SimpleAdapter(case)
    prefix = markov.norm_prefix(case)

    def case_of(p):
        c = dict(case)
        c["prefix"] = [list(e) for e in p]
        return c
    v = contagion.check_counts(ad, prefix, case_of, random.Random(5)) if prefix else []
    if v:
        return v
    return markov.replay_walk(case, adapter_cls=contagion.SimpleAdapter, rows=False)


def research(case):
    """Minimisation support: fresh seeded walks on a (reduced) case."""
    import random
    c = {k: v for k, v in case.items() if k != "prefix"}
    for s in range(6):
        ad = contagion.SimpleAdapter(c)
        try:
            v = walks.walk(ad, random.Random(s), 10, {}, lambda p: dict(c, prefix=[list(e) for e in p]),
                           prefer=contagion.simple_prefer)
        except Exception:
            v = []
        if v:
            return v
    return []
