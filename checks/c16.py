"""C16 - Weighted event selection stays proportional to weight after any history.

Families
  machine       E4: seeded operation sequences on the weighted candidate set
                (_ListDict_) against a dict; after every operation membership,
                total weight and the exact selection law (draw-tree explorer).
  sir_walk / sis_walk / simple_walk / complex_walk
                behavioural half: weighted E1 walks on the four Gillespie
                simulators with weight pathologies (two-level, wide range,
                zeros) and a walk bias that makes the heaviest candidate leave
                again and again (F5); the clock handed to expovariate must be
                sum(weight*rate) and the jump law weight/sum.
"""
from eonsim import contagion, listdict_machine as lm, markov, walks
from eonsim.explorer import Skip

PROPERTY = "C16"
LEVEL = "exploration"
RULE = ("machine: seeded sequences (<=40 ops) of insert/replace/update(+d>=0)/remove/random_removal/probe over 8 items "
        "and weights from {0, dyadic, non-dyadic, 1e-3..1e3}; distinct = digest of (op prefix); non-trivial = a prefix "
        "after which the set holds >=2 positive weights and its selection law was probed. walks: as C01/C02/C03/C15 "
        "restricted to weighted cases, distinct = (case digest, status vector).")
ASSUMPTIONS = [
    "random.random/choice have their documented distributions",
    "each use of a uniform draw is a monotone step function of the draw",
    "the machine half needs EoN.simulation._ListDict_ (private); if a refactor removes it the machine is skipped "
    "(recorded) and only the behavioural walks decide",
]
COMPONENTS = {"real": ["EoN.simulation._ListDict_", "EoN.Gillespie_SIR", "EoN.Gillespie_SIS",
                       "EoN.Gillespie_simple_contagion", "EoN.Gillespie_complex_contagion"],
              "stub": ["random source (SimRandom scripted)", "user callbacks of the contagion simulators"]}


def plan(tier):
    if tier == "quick":
        return [("machine", 320), ("sample", 160), ("sir_walk", 300), ("sis_walk", 100), ("simple_walk", 250), ("complex_walk", 250)]
    return [("machine", 3200), ("sample", 1200), ("sir_walk", 3600), ("sis_walk", 1200), ("simple_walk", 3000), ("complex_walk", 3000)]


def _heavy_prefer(ad):
    def prefer(rng, cands, state, step):
        if rng.random() < 0.6:
            ev = ad.ref.enabled(state)
            best, bw = None, -1.0
            for rk, r in sorted(ev.items(), key=repr):
                pk = ad.project(rk)
                if pk in cands and r > bw:
                    best, bw = pk, r
            if best is not None:
                return best
        return rng.choice(cands)
    return prefer


def run_one(family, rng, idx, tier):
    stats, keys = {}, set()
    out = {}
    if family == "machine":
        try:
            r, ops = lm.run_seeded(rng, 30 if tier == "quick" else 60, stats)
        except Skip as e:
            return {"skipped": "skip: %s" % str(e)[:60], "stats": {"evaluations": 0}}
        v = []
        if r is not None:
            v = [walks.V(r[0], "_ListDict_/%s" % r[0], r[1], {"ops": ops})]
        stats["evaluations"] = len(ops)
        import hashlib
        h = hashlib.sha256()
        bagsize = 0
        probed = stats.pop("_probed", [])
        for k, op in enumerate(ops):
            h.update(repr(op).encode())
            if k < len(probed) and probed[k]:
                keys.add("m|" + h.hexdigest()[:16])
        out = {"viol": v, "stats": stats, "keys": sorted(keys)}
        if idx < 2:
            out["sample"] = {"ops": ops}
        return out
    if family == "sample":
        try:
            res, ops, ncells = lm.sample_check(rng, {})
        except Skip as e:
            return {"skipped": "skip: %s" % str(e)[:60], "stats": {"evaluations": 0}}
        if res is None:
            if ncells == -1:
                return {"skipped": "sample: acceptance below 1/100 in this history (draw-count guard)",
                        "stats": {"evaluations": 0, "sample_skipped_low_acceptance": 1}}
            return {"skipped": "sample: fewer than two positive weights", "stats": {"evaluations": 0}}
        cells, n, weights = res
        return {"partial": {"cells": [[k, o, p] for k, o, p in cells], "n": n, "ops": ops, "weights": weights},
                "stats": {"evaluations": n, "sample_draws": n}}
    if family in ("sir_walk", "sis_walk"):
        sim = "Gillespie_SIR" if family == "sir_walk" else "Gillespie_SIS"
        case = markov.gen_walk_case(rng, sim, heavy_churn=True)
        ad = markov.MarkovAdapter(case)
        steps = 12 if sim.endswith("SIR") else 22
    elif family == "simple_walk":
        case = contagion.gen_simple_case(rng)
        ad = contagion.SimpleAdapter(case)
        steps = 10
    else:
        case = contagion.gen_complex_case(rng)
        case["model"] = "nodew"
        case["IC"] = [s if s in ("S", "I", "R") else "I" for s in case["IC"]]
        case["ret"] = ["S", "I", "R"]
        ad = contagion.ComplexAdapter(case)
        steps = 14

    def case_of(prefix):
        c = dict(case)
        c["prefix"] = [list(e) for e in prefix]
        c["family"] = family
        return c
    try:
        v = walks.walk(ad, rng, steps, stats, case_of, keys=keys, prefer=_heavy_prefer(ad))
    except Skip as e:
        v = []
        out["skipped"] = "skip: %s" % str(e)[:60]
    stats["evaluations"] = stats.get("states_probed", 0)
    out.update({"viol": v, "stats": stats, "keys": sorted(keys), "simtime": float(stats.get("events_walked", 0))})
    if idx < 1:
        out["sample"] = case
    return out


def shrink(v):
    case = v.get("case") or {}
    if "ops" in case:
        ops = lm.shrink_ops(case["ops"], v["cls"])
        r, k = lm.run_ops(ops)
        if r is not None and r[0] == v["cls"]:
            return walks.V(r[0], v["key"], r[1], {"ops": ops})
    return v


def replay(case):
    if "sample_ops" in case:
        # re-run the seeded history and the sample
        import random
        from eonsim import framework, lawtest
        rng = framework.derive_rng(case["seed"], PROPERTY, "sample", case["idx"])
        res, ops, ncells = lm.sample_check(rng, {})
        if res is None:
            return []
        cells, n, weights = res
        fails, _, _ = lawtest.decide([((0,), n, cells)])
        return [walks.V("sample_law", "_ListDict_/sampled-selection-law", "replay %r" % (fails[0],), case)] if fails else []
    if "ops" in case:
        r, k = lm.run_ops([list(o) for o in case["ops"]])
        return [walks.V(r[0], "_ListDict_/%s" % r[0], r[1], case)] if r is not None else []
    fam = case.get("family")
    if fam in ("sir_walk", "sis_walk"):
        return markov.replay_walk(case, rows=False)
    if fam == "simple_walk":
        return markov.replay_walk(case, adapter_cls=contagion.SimpleAdapter, rows=False)
    return markov.replay_walk(case, adapter_cls=contagion.ComplexAdapter, rows=False)


def finalize(parts, tier, seed):
    from eonsim import lawtest
    tests = []
    for (fam, idx), p in parts:
        tests.append(((idx,), p["n"], [tuple(c) for c in p["cells"]]))
    fails, ncells, worst = lawtest.decide(tests)
    byidx = {idx: p for (fam, idx), p in parts}
    viol = []
    for (label, k, o, n, pr, pv) in fails[:3]:
        p = byidx[label[0]]
        viol.append({"cls": "sample_law", "key": "_ListDict_/sampled-selection-law",
                     "msg": "history %d: candidate %s chosen %d times in %d seeded draws, weight/sum = %.6g (weights %r), p=%.3g"
                            % (label[0], k, o, n, pr, p["weights"], pv),
                     "case": {"sample_ops": p["ops"], "n": n, "seed": seed, "idx": label[0]}, "family": "sample", "idx": label[0]})
    stats = {"sample_cells_tested": ncells}
    if worst:
        stats["sample_worst_z"] = round(worst[0], 3)
    keys = ["s|%d|%s" % (idx, c[0]) for (fam, idx), p in parts for c in p["cells"]]
    return {"viol": viol, "stats": stats, "keys": keys}
