"""C10 - Full-data object and plain time series describe the same epidemic.

Family per simulator: each seeded case is executed twice under the same seam
seed, once per return mode (all continuous-time simulators; discrete_SIR under
table rules with whole-number horizons).  Oracle: history.two_views.
"""
import hashlib
import random

from eonsim import history, simcases, sweeps
from eonsim.walks import V
from checks.c04 import tune

PROPERTY = "C10"
LEVEL = "exploration"
RULE = ("per simulator: seeded swarm as in C04 (ties from buggified draws and dyadic tables, events at exactly tmin, "
        "initially recovered nodes); both return modes under identical draws; query times = tmin, every event time "
        "exactly, one ulp / 1e-9 before and after, beyond the end. distinct = digest of the node histories; "
        "non-trivial = at least one change after tmin.")
ASSUMPTIONS = ["both return modes consume the same draws (continuous-time simulators; discrete_SIR with deterministic table rules)",
               "rows of the arrays that share a time are compared after collapsing to the last one, which is what summary() produces by construction"]
COMPONENTS = {"real": ["EoN simulators in both return modes", "EoN.Simulation_Investigation.summary/t/S/I/R/node_history/node_status/get_statuses"],
              "stub": ["random source (SimRandom seeded/buggify)", "np.random.binomial", "user callbacks (keyed tables)"]}
SIM_LIST = sorted(simcases.CONT) + ["discrete_SIR"]


def plan(tier):
    n = 5000 if tier == "quick" else 150000
    return [(s, n) for s in SIM_LIST]


def prepare(case, rng):
    case = tune(case, rng)
    if case["sim"] == "discrete_SIR":
        case["det_rule"] = True
        case["recovery_rule"] = bool(case.get("recovery_rule"))
        case["rho"] = case["rho"]
    return case


def one_case(case):
    ra, G, labels, _ = simcases.call(case, False)
    rf, G2, labels2, _ = simcases.call(case, True)
    info = {"status": rf.status, "fired": dict(rf.sim.fired), "changes": 0, "digest": None}
    if sweeps.is_harness_limit(ra) or sweeps.is_harness_limit(rf):
        info["status"] = "limit"
        return [], info
    if ra.status == "exc" or rf.status == "exc":
        if ra.status != rf.status:
            bad = ra if ra.status == "exc" else rf
            return [V("modes", "%s/one-mode-raises" % case["sim"], "arrays mode: %r ; full data: %r" % (ra, rf), case)], info
        return [sweeps.crash_violation(case, rf, "both")], info
    if ra.sim.digest() != rf.sim.digest() and case["sim"] != "discrete_SIR":
        # (discrete_SIR under table rules draws only the reported infector in
        # full-data mode; its epidemic does not depend on any draw after the
        # rho sample, which both modes make first)
        # the two modes did not consume the same draws: not comparable
        info["status"] = "draws-differ"
        return [], info
    try:
        nchg = sum(len(rf.value.node_history(x)[0]) for x in labels)
    except Exception:
        nchg = 0
    if nchg > 3000:
        # the history oracles are quadratic in the number of changes: very long runs are not judged here
        info["status"] = "too-long"
        return [], info
    rng = random.Random(case["seam"]["seed"])
    v = [V(cls, "%s/%s" % (case["sim"], suffix), msg, case)
         for cls, suffix, msg in history.two_views(case, ra.value, rf.value, labels, rng)]
    try:
        hs = [rf.value.node_history(x) for x in labels]
        info["changes"] = sum(len(h[0]) - 1 for h in hs)
        fin = [float(x) for h in hs for x in h[0] if x < 1e17]
        info["simtime"] = max(fin) - case["tmin"] if fin else 0.0
        info["digest"] = hashlib.sha256(repr(hs).encode()).hexdigest()[:16]
    except Exception:
        pass
    return v, info


def run_one(family, rng, idx, tier):
    case = prepare(simcases.gen_case(rng, family), rng)
    v, info = one_case(case)
    stats = {"evaluations": 1}
    for k, n in info["fired"].items():
        stats["fault_F1_%s" % k] = n
    if info["status"] == "draws-differ":
        stats["modes_consumed_different_draws"] = 1
    if info["status"] not in ("done", "exc"):
        return {"skipped": "not comparable: %s" % info["status"], "stats": stats}
    out = {"viol": v, "stats": stats, "simtime": min(1000.0, max(0.0, info.get("simtime", 0.0)))}
    if info["changes"] and info["digest"]:
        out["keys"] = ["%s|%s" % (family, info["digest"])]
    if idx < 1:
        out["sample"] = case
    return out


def replay(case):
    return one_case(case)[0]
