"""Determinism self-test of the harness (DESIGN.md section 6).

For a sample of (check, family, run index): the run is executed twice in this
process, once in a fresh interpreter with PYTHONHASHSEED=0 and once with
PYTHONHASHSEED=random; the digests of the complete run results (violations,
statistics, distinct keys, samples) must be identical.  Also runs one small
check at 1 and at 16 workers and compares the aggregated coverage.
Exit 0 = deterministic, 2 = harness not deterministic (never a property verdict).
"""
import hashlib
import json
import os
import subprocess
import sys
import time

import eonsim
from eonsim import framework

CHECKS = ["c01", "c02", "c03", "c04", "c05", "c09", "c10", "c11", "c12", "c13", "c14", "c15", "c16", "c17", "c18", "c19"]
HEAVY = {"law", "xproc"}


def sample_digests(per_family):
    out = {}
    seed = int(os.environ.get("VERIF_SEED", framework.DEFAULT_SEED))
    for cn in CHECKS:
        mod = __import__("checks.%s" % cn, fromlist=["x"])
        for fam, n in mod.plan("quick"):
            if fam in HEAVY:
                continue
            for idx in range(min(per_family, n)):
                rng = framework.derive_rng(seed, mod.PROPERTY, fam, idx)
                r = mod.run_one(fam, rng, idx, "quick") or {}
                r.pop("_w", None)
                body = json.dumps(r, sort_keys=True, default=framework._jdefault)
                out["%s/%s/%d" % (cn, fam, idx)] = hashlib.sha256(body.encode()).hexdigest()[:16]
    return out


def _discrete(key):
    k = key.lower()
    return "discrete" in k or k.startswith("c12/") or "/dsir" in k


def main(argv):
    per_family = 2
    if "--child" in argv:
        sys.stdout.write(json.dumps(sample_digests(per_family)))
        return 0
    t0 = time.time()
    a = sample_digests(per_family)
    b = sample_digests(per_family)
    bad = [k for k in a if a[k] != b.get(k)]
    results = {"in_process_repeat_mismatches": bad}
    here = os.path.join(eonsim.VERIF, "check")
    for hs in ("0", "random"):
        env = dict(os.environ)
        env["PYTHONHASHSEED"] = hs
        env["EON_VERIF_KEEP_HASHSEED"] = "1"
        env["PYTHONWARNINGS"] = "ignore"
        env["PYTHONDONTWRITEBYTECODE"] = "1"
        env["MPLBACKEND"] = "Agg"
        p = subprocess.run([sys.executable, here, "selftest", "--child"], stdout=subprocess.PIPE, stderr=subprocess.PIPE,
                           env=env, timeout=1200)
        if p.returncode != 0:
            print("HARNESS-ERROR selftest child failed: %s" % p.stderr.decode()[-1500:])
            return 2
        c = json.loads(p.stdout.decode())
        mm = [k for k in a if a[k] != c.get(k)]
        if hs == "random":
            # the discrete-time simulators iterate over Python sets of node labels: with string labels
            # the code under test itself depends on the interpreter's hash seed (C18 claims hash-seed
            # independence for the continuous-time simulators only).  The checks always run under
            # PYTHONHASHSEED=0 (the launcher re-executes itself), which the "0" child verifies exactly;
            # under a random hash seed only runs that do not involve those simulators must agree.
            results["hash_seed_dependent_runs_of_discrete_simulators"] = [k for k in mm if _discrete(k)]
            mm = [k for k in mm if not _discrete(k)]
        results["fresh_interpreter_hashseed_%s_mismatches" % hs] = mm
        bad += mm
    # worker-count independence of the aggregation
    cov = {}
    for w in ("1", "16"):
        env = dict(os.environ)
        env["VERIF_WORKERS"] = w
        env["VERIF_SCALE"] = "0.05"
        env["EON_VERIF_EVIDENCE_DIR"] = "/dev/null"
        p = subprocess.run([sys.executable, here, "C14", "--tier", "quick", "--workers", w], stdout=subprocess.PIPE,
                           stderr=subprocess.PIPE, env=env, timeout=1200)
        line = [l for l in p.stdout.decode().splitlines() if l.startswith("C14 ")]
        cov[w] = (p.returncode, line[0].split(" wall=")[0] if line else None)
    results["workers_1_vs_16"] = cov
    if cov["1"] != cov["16"]:
        bad.append("workers")
    results["samples"] = len(a)
    results["wall_s"] = round(time.time() - t0, 1)
    d = os.path.join(eonsim.VERIF, "evidence")
    os.makedirs(d, exist_ok=True)
    with open(os.path.join(d, "selftest.json"), "w") as f:
        json.dump(results, f, indent=1, sort_keys=True)
    print("selftest: %d sampled runs x (2 in-process + 2 fresh interpreters), mismatches=%d, workers 1 vs 16: %s, wall=%.1fs"
          % (len(a), len(bad), "same" if cov["1"] == cov["16"] else "DIFFER", time.time() - t0))
    if bad:
        print("HARNESS-ERROR selftest: not deterministic: %r" % bad[:10])
        return 2
    return 0
