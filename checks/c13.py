"""C13 - Event-driven SIS with arbitrary delays follows the plain reference semantics.

Families
  refine   E2: fast_nonMarkov_SIS (separate and joint callback API) against the
           naive reference (sorted list of timestamped attempts and recoveries;
           an attempt infects iff the target is susceptible at that instant)
           on keyed tables: duration per (node, k-th infection), ascending
           delay lists of length 0-4 per (source, target, k-th infection), all
           before recovery as documented.  F3 horizons anywhere.
  law      E3: harness-side exponential rules (recovery ~ Exp(gamma), attempts
           = Poisson(tau) points before recovery) against the SIS master
           equation, status vector at T < tmax.
"""
import hashlib
import math
import os
import random

import eonsim
from eonsim import cases, framework, lawtest, simcases
from eonsim.refmodels import CTMC, adjacency, canon_history, plain_sis
from eonsim.seam import SEEDED, SimRandom
from eonsim.walks import V

EoN = eonsim.load_eon()
INF = float("inf")

PROPERTY = "C13"
LEVEL = "exploration"
RULE = ("refine: seeded graphs N<=8 (all label types) x keyed duration / delay-list tables x initial sets x tmin x horizon "
        "from {fixed, at / one ulp before / one ulp after an event of the longer run, tmin}; schedules with coincident event "
        "times are rejected (the property excludes them). distinct = digest of (graph, table seed, request, horizon, API); "
        "non-trivial = the reference history contains a reinfection of some node. law: seeded samples per configuration.")
ASSUMPTIONS = ["the user functions are called once per infection of a node (per ordered pair), which keys the k-th infection",
               "delay lists are ascending and end before recovery, as documented for trans_time_fxn",
               "law clause is statistical (exact binomial tails, total false-alarm probability <= 1e-9 per invocation)"]
COMPONENTS = {"real": ["EoN.fast_nonMarkov_SIS", "EoN.myQueue", "EoN.Simulation_Investigation"],
              "stub": ["user duration / delay-list callbacks (keyed tables; seeded exponential rules for the law clause)"]}

LAW_N = {"quick": 10000, "thorough": 100000}
LAW_CFGS = {"quick": 6, "thorough": 24}
LAW_BATCHES = 4


def plan(tier):
    if tier == "quick":
        return [("refine", 25000), ("law", LAW_CFGS[tier] * LAW_BATCHES)]
    return [("refine", 300000), ("law", LAW_CFGS[tier] * LAW_BATCHES)]


def gen_refine(rng):
    case = simcases.gen_case(rng, "fast_nonMarkov_SIS", nmax=8, buggify=False, allow_rho=False, horizon="finite",
                             selfloops=0.3, directed=rng.random() < 0.25)
    case["span"] = rng.choice([2.0, 4.0, 8.0])
    case["hpolicy"] = rng.choice(["fixed", "on_event", "before_event", "after_event", "at_tmin"])
    case["hpick"] = rng.random()
    case["sis_unfiltered"] = rng.random() < 0.5
    # a quarter of the cases: the rule is a memo table that hands out the same list object for an ordered
    # pair every time (unfiltered, independent of which infection of the source it is)
    case["sis_shared_lists"] = rng.random() < 0.25
    if case["sis_shared_lists"]:
        case["sis_unfiltered"] = True
    # a fifth of the cases place one attempt at absolute time exactly 0.0 (tmin = -delay of one attempt
    # of an initially infected node): zero is a perfectly good time
    case["zero_hit"] = rng.random() < 0.2
    return case


def ref_run(case, labels, tmax, flags=None):
    n = len(labels)
    tabs = simcases.Tables(case, labels)
    adj = adjacency(case["graph"])
    nbrs = [[v for v, _ in adj[u]] for u in range(n)]

    def dur(u, k):
        return tabs.sis_duration_k(u, k)

    def dl(u, v, k):
        d = tabs.sis_duration_k(u, k)
        return [x for x in tabs.sis_delays_k(u, v, k) if case.get("sis_unfiltered") or x < d]
    return plain_sis(n, nbrs, dur, dl, case["I0"], case["tmin"], tmax, flags=flags)


def one_refine(case):
    G, labels = cases.build_graph(case["graph"])
    if case.get("zero_hit") and not case.get("_zero_done"):
        tabs0 = simcases.Tables(case, labels)
        adj0 = adjacency(case["graph"])
        cand = []
        for u in case["I0"]:
            for v, _ in adj0[u]:
                ds = tabs0.sis_delays_k(u, v, 0)
                if not case.get("sis_unfiltered"):
                    ds = [d for d in ds if d < tabs0.sis_duration_k(u, 0)]
                cand.extend(ds)
        if cand:
            d = cand[int(case["hpick"] * len(cand)) % len(cand)]
            case = dict(case, tmin=-d, _zero_done=True)
    tmin = case["tmin"]
    flags = {}
    long_events, _ = ref_run(case, labels, tmin + case["span"], flags)
    times = [e[0] for e in long_events]
    info = {"nontrivial": False, "skip": None}
    if flags.get("coincident"):
        # also attempts that do not succeed count: two sources reaching a node at one instant leave the
        # infector open, an attempt at the instant of the target's recovery leaves the outcome open
        # (memo-table lists make sums of the same delays in different orders coincide exactly)
        info["skip"] = "coincident event times"
        return [], info
    if len(set(times)) != len(times) - 0 and len(set(times)) != len(times):
        # coincident times among non-initial events: outside the property
        later = [t for t in times if t > tmin]
        if len(set(later)) != len(later):
            info["skip"] = "coincident event times"
            return [], info
    later = sorted(t for t in times if t > tmin)
    pol = case["hpolicy"]
    if pol == "fixed" or not later:
        tmax = tmin + case["span"]
    elif pol == "at_tmin":
        tmax = tmin
    else:
        e = later[int(case["hpick"] * len(later)) % len(later)]
        tmax = e if pol == "on_event" else math.nextafter(e, -INF if pol == "before_event" else INF)
    events, want = ref_run(case, labels, tmax)
    if tmax <= tmin:
        # initial infections are the initial condition whatever the horizon
        events = [(tmin, "inf", None, u) for u in dict.fromkeys(case["I0"])]
        want = [([tmin], ["I"]) if u in case["I0"] else ([tmin], ["S"]) for u in range(len(labels))]
    info["nontrivial"] = any(h[1].count("I") >= 2 for h in want)
    info["events"] = len(events)
    c = dict(case)
    c["tmax"] = tmax
    name = "fast_nonMarkov_SIS"
    rf, _, _, tf = simcases.call(c, True, sim=SimRandom(SEEDED, seed=1))
    ra, _, _, ta = simcases.call(c, False, sim=SimRandom(SEEDED, seed=1))
    from eonsim import sweeps as _sw
    bad = _sw.args_violation(c, tf) or _sw.args_violation(c, ta)
    if bad:
        return bad, info
    for r, mode in ((rf, "full-data"), (ra, "arrays")):
        if r.status == "exc":
            return [V("crash", "%s/exception/%s" % (name, type(r.exc).__name__),
                      "%s mode (tmax=%r): %s: %s" % (mode, tmax, type(r.exc).__name__, r.exc), c)], info
        if r.status != "done":
            return [], info
    inv = rf.value
    for u, lab in enumerate(labels):
        ts, ss = inv.node_history(lab)
        got = canon_history([float(x) for x in ts], list(ss))
        if got != canon_history(*want[u]):
            return [V("refine", "%s/history-vs-plain-semantics" % name,
                      "tmax=%r api=%s: node %r history %r, reference %r" % (tmax, case["api"], lab, got, canon_history(*want[u])), c)], info
        if any(not x < tmax for x in ts[1:]):
            return [V("horizon", "%s/event-at-or-after-tmax" % name, "node %r history %r, tmax=%r" % (lab, list(ts), tmax), c)], info
    index = {lab: i for i, lab in enumerate(labels)}
    got_tr = sorted((float(t), None if u is None else index[u], index[v]) for (t, u, v) in inv.transmissions())
    want_tr = sorted(((float(e[0]), e[2], e[3]) for e in events if e[1] == "inf"), key=lambda x: (x[0], x[2]))
    if sorted(got_tr, key=lambda x: (x[0], x[2])) != want_tr:
        return [V("refine", "%s/transmissions-vs-plain-semantics" % name,
                  "tmax=%r: transmissions %r, reference %r" % (tmax, got_tr, want_tr), c)], info
    try:
        t, S, I = [float(x) for x in ra.value[0]], [int(x) for x in ra.value[1]], [int(x) for x in ra.value[2]]
    except Exception:
        return [V("shape", "%s/shape" % name, "arrays mode returned %r" % (ra.value,), c)], info
    n = len(labels)
    nI = len(set(case["I0"]))
    rows = [(tmin, n - nI, nI)]
    for e in events:
        if e[0] == tmin and e[1] == "inf" and e[2] is None:
            continue
        if e[1] == "inf":
            rows.append((e[0], rows[-1][1] - 1, rows[-1][2] + 1))
        else:
            rows.append((e[0], rows[-1][1] + 1, rows[-1][2] - 1))
    if list(zip(t, S, I)) != rows:
        return [V("refine", "%s/arrays-vs-plain-semantics" % name,
                  "tmax=%r: arrays %r, reference rows %r" % (tmax, list(zip(t, S, I)), rows), c)], info
    return [], info


# ------------------------------------------------------------------- law
def law_cfgs(seed, tier):
    out = []
    for j in range(LAW_CFGS[tier]):
        rng = random.Random(framework.derive_int(seed, PROPERTY, "lawcfg", j))
        spec = cases.gen_graph(rng, 2, 4, family=rng.choice(["path", "star", "cycle", "complete", "tree"]))
        n = len(spec["nodes"])
        idx = list(range(n))
        rng.shuffle(idx)
        out.append({"graph": spec, "tau": rng.choice([0.3, 0.7, 1.3]), "gamma": rng.choice([0.7, 1.0, 1.3]),
                    "I0": idx[:rng.choice([1, 2])], "T": [1.0, 3.0], "tmax": 4.0, "api": ["separate", "joint"][j % 2]})
    return out


_CFG = {}


def _cfgs(seed, tier):
    if (seed, tier) not in _CFG:
        _CFG[(seed, tier)] = law_cfgs(seed, tier)
    return _CFG[(seed, tier)]


def law_sample(cfg, n, seed):
    G, labels = cases.build_graph(cfg["graph"])
    R = random.Random(seed)
    tau, gamma = cfg["tau"], cfg["gamma"]

    def rec(u):
        return R.expovariate(gamma)

    def trans(u, v, rec_delay):
        out, t = [], R.expovariate(tau)
        while t < rec_delay:
            out.append(t)
            t += R.expovariate(tau)
        return out

    def joint(node, nbrs):
        d = R.expovariate(gamma)
        return {v: trans(node, v, d) for v in nbrs}, d
    kw = dict(initial_infecteds=[labels[i] for i in cfg["I0"]], tmax=cfg["tmax"], return_full_data=True)
    if cfg["api"] == "joint":
        kw["trans_and_rec_time_fxn"] = joint
    else:
        kw["trans_time_fxn"] = trans
        kw["rec_time_fxn"] = rec

    def call():
        return EoN.fast_nonMarkov_SIS(G, **kw)

    def stat(inv):
        out = []
        for j, tt in enumerate(cfg["T"]):
            d = inv.get_statuses(time=tt)
            out.append((j, "".join(d[x] for x in labels)))
        return out
    return lawtest.sample_counts(call, n, seed, stat)


def law_expected(cfg):
    ref = CTMC(cfg["graph"], cfg["tau"], cfg["gamma"], sis=True)
    n = len(cfg["graph"]["nodes"])
    st = ["S"] * n
    for i in cfg["I0"]:
        st[i] = "I"
    return {j: {"".join(s): p for s, p in ref.dist_at(tuple(st), tt).items()} for j, tt in enumerate(cfg["T"])}


def finalize(parts, tier, seed):
    cfgs = _cfgs(seed, tier)
    by = {}
    for (_f, _i), p in parts:
        d = by.setdefault(p["cfg"], {"n": 0, "counts": {}})
        d["n"] += p["n"]
        for k, v in p["counts"].items():
            d["counts"][k] = d["counts"].get(k, 0) + v
    tests, keys = [], []
    for j in sorted(by):
        for statname, dist in law_expected(cfgs[j]).items():
            counts = {eval(k)[1]: v for k, v in by[j]["counts"].items() if eval(k)[0] == statname}
            cells = lawtest.test_cells(by[j]["n"], counts, dist)
            tests.append(((j, statname), by[j]["n"], cells))
            keys.extend("law|%d|%s|%s" % (j, statname, c[0]) for c in cells)
    fails, ncells, worst = lawtest.decide(tests)
    viol = []
    for (label, k, o, n, p, pv) in fails[:3]:
        cfg = cfgs[label[0]]
        viol.append({"cls": "law", "key": "fast_nonMarkov_SIS/exponential-rules/law",
                     "msg": "config %d: T index %r cell %r observed %d of %d, master equation %.6g, p=%.3g" % (label[0], label[1], k, o, n, p, pv),
                     "case": {"law_cfg": cfg, "n": n, "seed": seed, "cfg_index": label[0]}, "family": "law", "idx": label[0]})
    stats = {"law_cells_tested": ncells}
    if worst:
        stats["law_worst_z"] = round(worst[0], 3)
    return {"viol": viol, "stats": stats, "keys": keys}


def run_one(family, rng, idx, tier):
    if family == "refine":
        case = gen_refine(rng)
        v, info = one_refine(case)
        stats = {"evaluations": 1, "horizon_%s" % case["hpolicy"]: 1, "reference_events": info.get("events", 0)}
        if case["sis_unfiltered"]:
            stats["fault_F2_attempts_after_source_recovery"] = 1
        if any(e[0] == e[1] for e in case["graph"]["edges"]):
            stats["graphs_with_self_loops"] = 1
        if case["graph"]["directed"]:
            stats["directed_contact_networks"] = 1
        if case["hpolicy"] != "fixed":
            stats["fault_F3_horizon_cut"] = 1
        if info["skip"]:
            return {"skipped": info["skip"], "stats": stats}
        out = {"viol": v, "stats": stats, "simtime": float(case["span"])}
        if info["nontrivial"]:
            stats["probe_reinfection_in_history"] = 1
            h = hashlib.sha256(repr((case["graph"], case["tabseed"], case["I0"], case["tmin"], case["hpolicy"], case["hpick"], case["span"], case["api"])).encode())
            out["keys"] = ["refine|" + h.hexdigest()[:16]]
        if idx < 1:
            out["sample"] = case
        return out
    seed = int(os.environ.get("VERIF_SEED", framework.DEFAULT_SEED))
    j, b = divmod(idx, LAW_BATCHES)
    cfg = _cfgs(seed, tier)[j]
    n = LAW_N[tier]
    counts = law_sample(cfg, n, rng.getrandbits(48))
    return {"partial": {"cfg": j, "n": n, "counts": {repr(k): v for k, v in counts.items()}},
            "stats": {"evaluations": n, "law_runs": n}}


def replay(case):
    if "law_cfg" in case:
        cfg, n = case["law_cfg"], case["n"]
        counts = law_sample(cfg, n, case["seed"] * 7919 + case["cfg_index"])
        tests = []
        for statname, dist in law_expected(cfg).items():
            c = {k[1]: v for k, v in counts.items() if k[0] == statname}
            tests.append(((0, statname), n, lawtest.test_cells(n, c, dist)))
        fails, _, _ = lawtest.decide(tests)
        return [{"cls": "law", "key": "fast_nonMarkov_SIS/exponential-rules/law", "msg": "replay %r" % (fails[0],), "case": case}] if fails else []
    return one_refine(case)[0]
