"""C05 - Requested initial conditions are what the simulation starts from.

Families
  start      per SIR/SIS simulator and wrapper: seeded cases x F7 (the same
             initial set as node / list / tuple / set / range / ndarray / dict
             keys, keyword or positional) x tmin x rho.  Oracle: row 0 and
             get_statuses(time=tmin) equal the request; initially recovered
             nodes are R throughout and never a transmission target; rho gives
             int(round(N*rho)) distinct nodes; order-preserving containers and
             the single-node form give the identical run under the same draws;
             basic_discrete_SIR == discrete_SIR with the default rule.
  conflict   rho together with initial_infecteds must raise EoNError for every
             label and value (node 0, rho = 0.0 included), every simulator.
"""
import hashlib

import numpy as np

import eonsim
from eonsim import cases, simcases, sweeps
from eonsim.seam import SEEDED, SimRandom, run_under
from eonsim.walks import V

EoN = eonsim.load_eon()

PROPERTY = "C05"
LEVEL = "exploration"
RULE = ("per simulator: seeded swarm of graph (N<=12, every label type), disjoint initial I/R sets or rho, container type, "
        "tmin, parameters; no zero delays are injected (an infection *at* tmin is a later event sharing the timestamp). "
        "distinct = digest of (simulator, graph, request, container); non-trivial = request with at least one initially "
        "infected or recovered node.")
ASSUMPTIONS = ["the single-node form is exercised for initial_infecteds only (initial_recovereds is documented as an iterable for "
               "the event-driven and Gillespie simulators)",
               "a tuple container is not used when node labels are themselves tuples (inherently ambiguous request)"]
COMPONENTS = {"real": ["ten SIR/SIS simulators and wrappers", "EoN.Simulation_Investigation.get_statuses/node_history/transmissions"],
              "stub": ["random source (SimRandom seeded)", "np.random.binomial", "user callbacks (keyed tables)"]}

SIM_LIST = sorted(s for s in simcases.SIMS if simcases.SIMS[s][1] != "generic")
CONTAINERS = ["list", "tuple", "set", "node", "dictkeys", "ndarray", "range", "positional"]


def plan(tier):
    n = 3000 if tier == "quick" else 100000
    return [("start:" + s, n) for s in SIM_LIST] + [("conflict", 4000 if tier == "quick" else 100000)]


def gen(rng, simname):
    # a quarter of the cases DO allow events at exactly tmin (zero delays from the tables, zero
    # exponentials from buggify): for those only row 0 of the arrays is judged, because an infection
    # *at* tmin is a later event sharing the timestamp and get_statuses(tmin) rightly shows it
    row0_only = rng.random() < 0.25
    case = simcases.gen_case(rng, simname, buggify=row0_only, zero_delays=row0_only,
                             horizon=rng.choice(["default", "inf", "finite"]))
    case["row0_only"] = row0_only
    from checks.c04 import tune
    case = tune(case, rng)
    cont = rng.choice(CONTAINERS)
    n = len(case["graph"]["nodes"])
    if case["rho"] is not None:
        cont = "list"
    elif cont == "node":
        case["I0"] = case["I0"][:1]
    elif cont in ("ndarray", "range"):
        # needs integer labels; range needs the nodes 0..k-1
        spec = case["graph"]
        spec["nodes"] = list(range(n))
        spec["label"] = "int"
        if cont == "range":
            k = len(case["I0"])
            case["I0"] = list(range(k))
            case["R0"] = [i for i in case["R0"] if i >= k]
    elif cont == "tuple" and case["graph"]["label"] in ("tuple", "fset", "falsy"):
        cont = "list"
    case["container"] = cont
    # the initially recovered set may be any sized collection too
    case["r0_container"] = rng.choice(["list", "list", "tuple", "set", "dictkeys"])
    return case


def call_with(case, full, container, seed_override=None, as_wrapper=None):
    """One call; returns RunResult, G, labels."""
    name = as_wrapper or case["sim"]
    c = dict(case)
    c["sim"] = name
    if container in ("ndarray", "range", "positional"):
        G, labels = cases.build_graph(c["graph"])
        sim = simcases.make_seam(c)
        tabs = simcases.Tables(c, labels)
        kw = {"tmin": c["tmin"], "return_full_data": full}
        if c.get("tmax") is not None:
            kw["tmax"] = c["tmax"]
        if c.get("R0"):
            kw["initial_recovereds"] = [labels[i] for i in c["R0"]]
        L = [labels[i] for i in c["I0"]]
        if container == "ndarray":
            ii = np.array(L)
        elif container == "range":
            ii = range(len(L))
        else:
            ii = L
        fn = getattr(EoN, name)
        if name in ("fast_SIR", "fast_SIS", "Gillespie_SIR", "Gillespie_SIS"):
            kw["transmission_weight"] = "w" if c.get("ew") else None
            kw["recovery_weight"] = "nw" if c.get("nw") else None
            if container == "positional":
                res = run_under(sim, fn, G, c["tau"], c["gamma"], ii, **kw)
            else:
                res = run_under(sim, fn, G, c["tau"], c["gamma"], initial_infecteds=ii, **kw)
        elif name in ("basic_discrete_SIR", "percolation_based_discrete_SIR", "basic_discrete_SIS"):
            if container == "positional":
                res = run_under(sim, fn, G, c["p"], ii, **kw)
            else:
                res = run_under(sim, fn, G, c["p"], initial_infecteds=ii, **kw)
        elif name == "discrete_SIR":
            if c.get("det_rule"):
                kw["test_transmission"] = tabs.contact_ok
            else:
                kw["args"] = (c["p"],)
            if c.get("recovery_rule"):
                kw["test_recovery"] = tabs.recovers
            res = run_under(sim, fn, G, initial_infecteds=ii, **kw)
        elif name == "fast_nonMarkov_SIR":
            res = run_under(sim, fn, G, trans_time_fxn=tabs.sir_trans_time, rec_time_fxn=tabs.sir_rec_time,
                            initial_infecteds=ii, **kw)
        elif name == "fast_nonMarkov_SIS":
            res = run_under(sim, fn, G, trans_time_fxn=tabs.sis_trans_time, rec_time_fxn=tabs.sis_rec_time,
                            initial_infecteds=ii, **kw)
        else:
            raise ValueError(name)
        return res, G, labels
    res, G, labels, _ = simcases.call(c, full, container=container)
    return res, G, labels


def fingerprint(value, full, labels):
    """Label-type independent rendering (np.int64(3) and 3 are the same node)."""
    if full:
        index = {lab: i for i, lab in enumerate(labels)}
        try:
            tr = [(float(t), None if u is None else index[u], index[v]) for (t, u, v) in value.transmissions()]
        except Exception:
            tr = None
        hs = []
        for x in labels:
            ts, ss = value.node_history(x)
            hs.append(([float(a) for a in ts], list(ss)))
        return repr((hs, tr))
    return repr([np.asarray(a).tolist() for a in value])


def one_case(case):
    name = case["sim"]
    model = simcases.SIMS[name][1]
    cont = case["container"]
    out = []
    info = {"status": "done"}
    ra, G, labels = call_with(case, False, cont)
    rf, _, _ = call_with(case, True, cont)
    for r, mode in ((ra, "arrays"), (rf, "full-data")):
        if sweeps.is_harness_limit(r):
            info["status"] = "limit"
            return [], info
        if r.status == "exc":
            return [V("crash", "%s/exception/%s" % (name, type(r.exc).__name__),
                      "%s mode, initial set passed as %s: %s: %s" % (mode, cont, type(r.exc).__name__, r.exc), case)], info
    N = len(labels)
    names = ["S", "I", "R"] if model == "SIR" else ["S", "I"]
    if case["rho"] is not None:
        k = int(round(N * case["rho"]))
        want_I, want_R = None, set()
        nI, nR = k, 0
    else:
        want_I = {labels[i] for i in case["I0"]}
        want_R = {labels[i] for i in case["R0"]}
        nI, nR = len(want_I), len(want_R)
    want_row = {"S": N - nI - nR, "I": nI, "R": nR}
    try:
        arrs = [np.asarray(a) for a in ra.value]
        row0 = {nm: int(arrs[1 + j][0]) for j, nm in enumerate(names)}
        t0 = float(arrs[0][0])
    except Exception as e:
        return [V("shape", "%s/shape" % name, "arrays mode returned %r (%s)" % (ra.value, e), case)], info
    if t0 != case["tmin"] or any(row0[nm] != want_row[nm] for nm in names):
        out.append(V("start_row", "%s/start-row" % name,
                     "initial set as %s, request I=%d R=%d of N=%d at tmin=%r; row 0 is t=%r %r"
                     % (cont, nI, nR, N, case["tmin"], t0, row0), case))
        return out, info
    if case.get("row0_only"):
        info["row0_only"] = 1
        return out, info
    inv = rf.value
    try:
        st = inv.get_statuses(time=case["tmin"])
        st_default = inv.get_statuses()
    except Exception as e:
        return [V("query", "%s/get_statuses-raises" % name, "%s: %s" % (type(e).__name__, e), case)], info
    for which, stx in (("get_statuses(time=tmin)", st), ("get_statuses()", st_default)):
        gotI = {x for x in labels if stx[x] == "I"}
        gotR = {x for x in labels if stx[x] == "R"}
        if want_I is None:
            ok = len(gotI) == nI and not gotR
        else:
            ok = gotI == want_I and gotR == want_R
        if not ok or any(stx[x] not in names for x in labels):
            out.append(V("start_status", "%s/start-statuses" % name,
                         "initial set as %s: %s gives I=%r R=%r, requested I=%r R=%r"
                         % (cont, which, sorted(gotI, key=repr), sorted(gotR, key=repr),
                            "any %d nodes" % nI if want_I is None else sorted(want_I, key=repr),
                            sorted(want_R, key=repr)), case))
            return out, info
    # initially recovered nodes stay R and are never a target
    if want_R:
        try:
            tr = inv.transmissions()
        except Exception:
            tr = []
        for x in want_R:
            ts, ss = inv.node_history(x)
            if list(ss) != ["R"] or any(v == x for (_, _, v) in tr):
                out.append(V("recovered_infected", "%s/initially-recovered-changes" % name,
                             "initially recovered %r has history %r/%r, transmissions to it: %r"
                             % (x, list(ts), list(ss), [e for e in tr if e[2] == x]), case))
                return out, info
    # differential runs under identical draws
    if case["rho"] is None and cont in ("tuple", "node", "dictkeys", "ndarray", "range", "positional"):
        rb, _, _ = call_with(case, True, "list")
        if rb.status == "done":
            if fingerprint(rb.value, True, labels) != fingerprint(rf.value, True, labels):
                out.append(V("container", "%s/container-changes-run" % name,
                             "same draws: initial set as %s and as list give different epidemics" % cont, case))
                return out, info
            info["differential"] = 1
    if name == "basic_discrete_SIR" and cont != "positional":
        c2 = dict(case)
        c2["det_rule"] = False
        c2["recovery_rule"] = False
        for full in (False, True):
            r1, _, _ = call_with(case, full, cont)
            r2, _, _ = call_with(c2, full, cont if cont not in ("ndarray", "range") else cont, as_wrapper="discrete_SIR")
            if r1.status == "done" and r2.status == "done":
                if fingerprint(r1.value, full, labels) != fingerprint(r2.value, full, labels):
                    out.append(V("wrapper", "basic_discrete_SIR/differs-from-discrete_SIR",
                                 "same draws: basic_discrete_SIR(G,p,...) and discrete_SIR(G,args=(p,),...) differ "
                                 "(full=%r): %s vs %s" % (full, fingerprint(r1.value, full, labels)[:300],
                                                          fingerprint(r2.value, full, labels)[:300]), case))
                    return out, info
                info["wrapper_diff"] = 1
    return out, info


def conflict_case(rng):
    simname = rng.choice(SIM_LIST)
    case = simcases.gen_case(rng, simname, buggify=False, zero_delays=False, allow_rho=False, horizon="finite")
    spec = case["graph"]
    n = len(spec["nodes"])
    if rng.random() < 0.5:
        spec["nodes"] = list(range(n))
        spec["label"] = "int"
        case["I0"] = [0] if rng.random() < 0.7 else case["I0"]
    case["rho_conflict"] = rng.choice([0.0, 0.0, 0.1, 0.5, 1.0])
    case["container"] = rng.choice(["list", "node", "tuple", "set"]) if len(case["I0"]) == 1 else rng.choice(["list", "set"])
    if case["container"] == "tuple" and spec["label"] in ("tuple", "fset", "falsy"):
        case["container"] = "list"
    case["R0"] = []
    return case


def one_conflict(case):
    c = dict(case)
    c["rho"] = None
    G, labels = cases.build_graph(c["graph"])
    out = []
    for full in (False,):
        cc = dict(c)
        # ic_args builds initial_infecteds; add rho on top
        name = cc["sim"]
        sim = simcases.make_seam(cc)
        tabs = simcases.Tables(cc, labels)
        kw = simcases.ic_args(cc, labels, cc["container"])
        kw["rho"] = case["rho_conflict"]
        kw["tmin"] = cc["tmin"]
        kw["tmax"] = cc["tmin"] + 1
        fn = getattr(EoN, name)
        if name in ("fast_SIR", "fast_SIS", "Gillespie_SIR", "Gillespie_SIS"):
            res = run_under(sim, fn, G, cc["tau"], cc["gamma"], **kw)
        elif name in ("basic_discrete_SIR", "percolation_based_discrete_SIR", "basic_discrete_SIS"):
            res = run_under(sim, fn, G, cc["p"], **kw)
        elif name == "discrete_SIR":
            res = run_under(sim, fn, G, args=(cc["p"],), **kw)
        elif name == "fast_nonMarkov_SIR":
            res = run_under(sim, fn, G, trans_time_fxn=tabs.sir_trans_time, rec_time_fxn=tabs.sir_rec_time, **kw)
        else:
            res = run_under(sim, fn, G, trans_time_fxn=tabs.sis_trans_time, rec_time_fxn=tabs.sis_rec_time, **kw)
        if res.status == "exc" and isinstance(res.exc, EoN.EoNError):
            continue
        if sweeps.is_harness_limit(res):
            continue        # not under the harness's control: never a verdict
        what = "returned normally" if res.status == "done" else "%s: %s" % (type(res.exc).__name__, res.exc) \
            if res.status == "exc" else res.status
        out.append(V("conflict", "%s/rho-and-initial_infecteds-accepted" % name,
                     "rho=%r together with initial_infecteds=%r must raise EoNError; the call %s"
                     % (case["rho_conflict"], kw.get("initial_infecteds"), what), case))
    return out


def run_one(family, rng, idx, tier):
    if family == "conflict":
        case = conflict_case(rng)
        v = one_conflict(case)
        h = hashlib.sha256(repr((case["sim"], case["graph"]["nodes"], case["I0"], case["rho_conflict"], case["container"])).encode())
        out = {"viol": v, "stats": {"evaluations": 1, "conflict_cases": 1,
                                    "conflict_rho_zero": 1 if case["rho_conflict"] == 0.0 else 0},
               "keys": ["conflict|" + h.hexdigest()[:16]]}
        if idx < 1:
            out["sample"] = case
        return out
    simname = family.split(":", 1)[1]
    case = gen(rng, simname)
    v, info = one_case(case)
    stats = {"evaluations": 1, "container_%s" % case["container"]: 1}
    if case["rho"] is not None:
        stats["rho_cases"] = 1
    if info.get("differential"):
        stats["differential_container_runs"] = 1
    if info.get("row0_only"):
        stats["cases_with_events_at_tmin_row0_only"] = 1
    if info.get("wrapper_diff"):
        stats["differential_wrapper_runs"] = 1
    if info["status"] != "done":
        return {"skipped": "seam: %s" % info["status"], "stats": stats}
    out = {"viol": v, "stats": stats}
    if case["rho"] is None or case["rho"] > 0:
        h = hashlib.sha256(repr((simname, case["graph"], case["I0"], case["R0"], case["rho"], case["container"], case["tmin"])).encode())
        out["keys"] = ["start|" + h.hexdigest()[:16]]
    if idx < 1:
        out["sample"] = case
    return out


def replay(case):
    if "rho_conflict" in case:
        return one_conflict(case)
    return one_case(case)[0]
