#!/venv/bin/python
"""Regenerates /verif/MANIFEST.json from the check modules (kept valid at all times)."""
import json
import os

HERE = os.path.dirname(os.path.abspath(__file__))

CLAIMS = {
 "C01": ("E1 draw-tree explorer on Gillespie_SIR + E3 seeded law test on fast_SIR / Gillespie_SIR",
         "deterministic simulation: scripted-seam re-execution (exact one-step kernel) + seeded law sampling",
         "Exact (to 1e-8) clock rate and jump law of the real Gillespie_SIR at every state visited by seeded walks on graphs N<=6 with all weight/rate/initial-set pathologies, against a from-scratch CTMC; fast_SIR (both code paths) and Gillespie_SIR end-to-end against expm(Q T) and the absorption law with exact binomial tails (false-alarm probability <=1e-9 per run). Sampling, not proof.",
         "5 C01"),
 "C02": ("E1 on Gillespie_SIS + E3 on fast_SIS / Gillespie_SIS", "deterministic simulation: scripted-seam re-execution + seeded law sampling",
         "As C01 for the SIS chain: walks of up to 25 events so that nodes are reinfected by the same and by other neighbours; full 2^N status vector law at T<tmax.", "5 C02"),
 "C03": ("E1 walks over a seeded space of model specifications + E3 seeded law test against the specification's own generator", "deterministic simulation: scripted-seam re-execution against a reference interpreter + seeded law sampling",
         "Exact clock and jump law of Gillespie_simple_contagion for random and named specifications (plain / weight_label / rate_function transitions, directed and undirected networks) at every visited state, event effect, and count tracking for random return_statuses subsets; implementation-agnostic back-up: status-vector law at two times against expm(Q T) built by the reference interpreter (exact binomial tails).", "5 C03, 12"),
 "C04": ("E2 well-formedness oracle over seeded + buggified runs of all twelve simulators + horizon-cut prefix consistency", "deterministic simulation with fault injection (extreme draws, tie-producing timer grid, horizon cuts as crash points, degenerate configurations)",
         "Every structural clause of C04 on every arrays-mode output of ~48000 (quick) seeded runs per invocation with injected extreme draws, exact ties, horizons at/below tmin and zero rates; termination with I=0 for unbounded SIR runs; for the continuous-time simulators the same seeded schedule cut at / one ulp around an event must give exactly the t<tmax prefix.", "5 C04"),
 "C05": ("E2 initial-condition sweep + differential runs under identical draws", "deterministic simulation: seeded runs with argument-shape faults (F7) and same-draw differential execution",
         "Row 0 and get_statuses(tmin) equal the request for ten simulators and wrappers under eight ways of passing the initial set; initially recovered nodes never change; rho+initial_infecteds rejected for every label/value.", "5 C05"),
 "C09": ("E2 causality oracle on full-data histories", "deterministic simulation with fault injection (ties from buggified draws and dyadic tables)",
         "Every transmission entry of every produced history (eleven simulators) is checked for edge, source status, target change, completeness and forest shape, tie-tolerantly.", "5 C09"),
 "C10": ("E2 paired runs (both return modes, identical draws)", "deterministic simulation: same-seed paired execution + history oracle",
         "summary()/t/S/I/R, node histories, node_status/get_statuses at adversarial query times against the arrays of the same draws for all simulators with comparable modes.", "5 C10"),
 "C11": ("E2 refinement against Dijkstra first-passage + builder checks + E3 law of get_infected_nodes", "deterministic simulation: keyed callback tables, horizon cuts at every event (F3), tie orders (F6)",
         "fast_nonMarkov_SIR histories, infectors and arrays equal the first-passage reference on tables full of ties, 0 and inf, with the horizon placed on/one ulp around events; percolation builders structurally and in law.", "5 C11"),
 "C12": ("E2 stepwise reference for discrete_SIR + E1 per-step / whole-run enumeration", "deterministic simulation: keyed rules + scripted-seam enumeration of Bernoulli draws",
         "discrete_SIR equals BFS/stepwise reference under table rules; exact next-generation law of basic_discrete_SIR/SIS, exact trajectory law of percolation_based_discrete_SIR, exact edge law of percolate_network on small graphs.", "5 C12"),
 "C13": ("E2 refinement against the naive SIS reference + E3 law with exponential rules", "deterministic simulation: keyed k-th-infection tables, horizon cuts",
         "fast_nonMarkov_SIS histories, transmissions and arrays equal the plain timestamped-attempt semantics incl. reinfections and chained attempts; exponential rules reproduce the SIS master equation.", "5 C13"),
 "C14": ("F6 relabel/reorder differential runs of the table-driven simulators, the percolation builders and (differential only) the graph-taking ODE entry points", "deterministic simulation: schedule perturbation (labels, insertion order, edge orientation) with transported tables",
         "Simulator half: per-node histories are invariant under relabelling (other label type), node/edge/initial-set order permutations. ODE half: only as a differential run of every graph-taking entry point under the same perturbation (population curves agree to 1e-5(N+1), integrator failures skipped) - the ODE mathematics itself is a pure function and is not decided by this technique.", "5 C14, 12.2"),
 "C15": ("E1 walks with user models and callback spies + E3 seeded law test", "deterministic simulation: scripted-seam re-execution with recording user callbacks + seeded law sampling",
         "Exact clock and jump law of Gillespie_complex_contagion against rates recomputed from scratch on current statuses; stop condition incl. tmax=inf; callbacks see current statuses, caller's G and parameters; influence sets returned as list / iterator / generator / set; back-up law test against expm(Q T) of the user model's generator.", "5 C15, 12"),
 "C16": ("E4 candidate-set operation machine + weighted E1 walks with heaviest-candidate churn", "deterministic simulation: seeded operation histories with exact selection-law extraction",
         "After every operation of seeded insert/replace/update/remove/random_removal histories the selection law is weight/sum exactly and the total is the sum; behaviourally on all four weighted Gillespie simulators.", "5 C16"),
 "C17": ("oracle chain with own SCC/BFS + E1 on bond percolation", "deterministic simulation: scripted-seam enumeration (bond percolation) and keyed user rules",
         "Percolation part only: returned pairs are (in,out) fractions of a largest SCC for graphs known from scripted draws / user rules; exact law of estimate_SIR_prob_size on <=7 edges.", "5 C17"),
 "C18": ("repeat runs with the real seeded generators + E6 fresh interpreters under four PYTHONHASHSEED values", "deterministic simulation: cross-interpreter replay with controlled hash seed",
         "Identical outputs and generator end-states on repeated seeded calls for all twelve simulators; continuous-time simulators identical across hash seeds with string names/statuses.", "5 C18"),
 "C19": ("E5 call-sequence machine with deep argument snapshots", "deterministic simulation: seeded call histories sharing argument objects (aliasing faults F8)",
         "No simulator, helper or ODE entry point (graph forms and captured direct array forms) changes any argument object across seeded sequences of calls sharing them; repeated deterministic calls return identical results.", "5 C19"),
}
NA = {
 "C06": "pure function of numeric input (deterministic ODE integration): no schedule, draw, callback order, clock or shared state for a simulator to own; deciding it would be plain input generation, not deterministic simulation",
 "C07": "numerical identity between pure functions of (degree distribution, tau, gamma, rho): nothing for a scheduler or fault injector to act on",
 "C08": "comparison of deterministic ODE output with closed-form / master-equation values: pure function of its input, no nondeterminism or fault surface",
 "C20": "subsample/get_time_shift/get_Pk/... are pure array and graph helpers with no schedule, draw, state or interleaving",
}


def main():
    checks = []
    for pid in sorted(CLAIMS):
        engine, tech, text, ref = CLAIMS[pid]
        checks.append({
            "property_id": pid,
            "quick_cmd": "./check %s --tier quick" % pid,
            "thorough_cmd": "./check %s --tier thorough" % pid,
            "evidence_file": "/verif/evidence/%s.json" % pid,
            "replay_cmd_template": "./check %s --replay {path}" % pid,
            "engine": engine,
            "level_claimed": {"category": "exploration", "text": text, "design_ref": "DESIGN.md section " + ref},
            "level_note": "seeded search over schedules (draw outcomes, callback tables, horizons, orders), not exhaustive; trusts the "
                          "documented distributions of random.random/choice/sample/expovariate and numpy.random.binomial, networkx, "
                          "numpy/scipy (expm, binom); real EoN code runs, only the random source and user callbacks are stubs",
            "technique": tech,
        })
    man = {
        "version": 1,
        "setup_cmd": "cd /verif && /venv/bin/python -c \"import numpy, scipy, networkx; print('deps ok')\" && ./check selftest",
        "hooks": {
            "guard": "EON_VERIF_HOOKS",
            "enable": "no hook exists in /repo: the checks substitute the module attributes EoN.simulation.random and EoN.simulation.np "
                      "at run time (existing seams), so nothing is guarded and the shipped behaviour is unchanged",
            "baseline_off_cmd": "cd /repo && /venv/bin/python -m pytest -ra -q -p no:cacheprovider --timeout=900 --continue-on-collection-errors",
            "source_commits": [],
            "add_only": True,
        },
        "engines": [
            {"name": "E1 draw-tree explorer", "path": "eonsim/explorer.py, eonsim/walks.py", "serves_properties": ["C01", "C02", "C03", "C12", "C15", "C16", "C17"], "kind_free_text": "scripted seam, exploration by re-execution, exact one-step kernel"},
            {"name": "E2 history oracles", "path": "eonsim/history.py, eonsim/simcases.py, eonsim/refmodels.py", "serves_properties": ["C04", "C05", "C09", "C10", "C11", "C12", "C13", "C14"], "kind_free_text": "seeded/buggified runs, keyed callback tables, reference models"},
            {"name": "E3 law sampler", "path": "eonsim/lawtest.py", "serves_properties": ["C01", "C02", "C11", "C13"], "kind_free_text": "seeded sampling vs master equation, exact binomial tails"},
            {"name": "E4 candidate-set machine", "path": "eonsim/listdict_machine.py", "serves_properties": ["C16"], "kind_free_text": "operation histories vs dict model"},
            {"name": "E5 call-sequence machine", "path": "eonsim/callseq.py", "serves_properties": ["C19"], "kind_free_text": "argument snapshots across shared-object call sequences"},
            {"name": "E6 cross-interpreter runner", "path": "eonsim/xproc.py", "serves_properties": ["C18"], "kind_free_text": "fresh interpreters with chosen PYTHONHASHSEED"},
        ],
        "checks": checks,
        "not_applicable": [{"property_id": k, "reason": v} for k, v in sorted(NA.items())],
        "notes": "Launcher: ./check Cnn --tier quick|thorough [--replay file]; honours VERIF_SEED, VERIF_TIER, VERIF_WORKERS, "
                 "EON_VERIF_REPO (default /repo). Exit 0 held / 1 violation / 2 harness error. Known findings: known_findings.json. "
                 "C14 is claimed for its simulator half, C17 for its percolation part (see DESIGN.md).",
    }
    with open(os.path.join(HERE, "MANIFEST.json"), "w") as f:
        json.dump(man, f, indent=1)
    print("wrote MANIFEST.json with %d checks" % len(checks))


if __name__ == "__main__":
    main()
