"""Gillespie_simple_contagion / Gillespie_complex_contagion: case generators,
adapters and reference wiring (C03, C15, C16)."""
import random as _random
from collections import defaultdict

import networkx as nx

from . import cases, walks, load_eon
from .adapters import case_digest
from .refmodels import SimpleContagion
from .seam import SCRIPTED, SimRandom, run_under

EoN = load_eon()

# ----------------------------------------------------- rate-function registry
NODE_FNS = {
    "n_half": lambda G, node: 0.25 + 0.5 * G.nodes[node]["nw2"],
    "n_const": lambda G, node: 1.5,
    "n_kw": lambda G, node, scale=1.0: scale * G.nodes[node]["nw"],
}
EDGE_FNS = {
    "e_half": lambda G, s, t: 0.25 + 0.5 * G.adj[s][t]["w2"],
    "e_src": lambda G, s, t: G.nodes[s]["nw"],
    "e_tgt": lambda G, s, t: G.nodes[t]["nw2"],
    "e_kw": lambda G, s, t, scale=1.0: scale * G.adj[s][t]["w"],
}
SCALE = 2.0


def ref_node_w(spec, mode, arg):
    na = spec["nattr"]
    if mode == "plain":
        return None
    if mode == "label":
        return lambda u: na[u][arg]
    if arg == "n_half":
        return lambda u: 0.25 + 0.5 * na[u]["nw2"]
    if arg == "n_const":
        return lambda u: 1.5
    if arg == "n_kw":
        return lambda u: SCALE * na[u]["nw"]
    raise ValueError(arg)


def ref_edge_w(spec, mode, arg):
    na = spec["nattr"]
    if mode == "plain":
        return None
    if mode == "label":
        return lambda u, v, a: a[arg]
    if arg == "e_half":
        return lambda u, v, a: 0.25 + 0.5 * a["w2"]
    if arg == "e_src":
        return lambda u, v, a: na[u]["nw"]
    if arg == "e_tgt":
        return lambda u, v, a: na[v]["nw2"]
    if arg == "e_kw":
        return lambda u, v, a: SCALE * a["w"]
    raise ValueError(arg)


TEMPLATES = ("random", "random", "random", "SIS", "SIR", "SIRS", "SEIR", "compete", "coop", "vacc")


def gen_spec_model(rng, template=None):
    """Returns (statuses, spont, induced): spont [[A,B,rate]], induced [[A,B,C,rate]]
    meaning (A,B)->(A,C)."""
    t = template or rng.choice(TEMPLATES)
    gen_spec_model.last = t
    r = lambda: rng.choice([0.25, 1.0, 0.3, 0.7, 1.3, 10.0, 0.0])  # noqa: E731
    if t == "SIS":
        return ["S", "I"], [["I", "S", r()]], [["I", "S", "I", r()]]
    if t == "SIR":
        return ["S", "I", "R"], [["I", "R", r()]], [["I", "S", "I", r()]]
    if t == "SIRS":
        return ["S", "I", "R"], [["I", "R", r()], ["R", "S", r()]], [["I", "S", "I", r()]]
    if t == "SEIR":
        return ["S", "E", "I", "R"], [["E", "I", r()], ["I", "R", r()]], [["I", "S", "E", r()]]
    if t == "compete":
        return (["S", "I1", "I2", "R"], [["I1", "R", r()], ["I2", "R", r()]],
                [["I1", "S", "I1", r()], ["I2", "S", "I2", r()]])
    if t == "vacc":
        return (["S", "I", "R", "V"], [["I", "R", r()], ["S", "V", r()]],
                [["I", "S", "I", r()], ["V", "S", "V", r()], ["I", "V", "I", r()]])
    if t == "coop":
        sts = ["SS", "SI", "SR", "IS", "II", "IR", "RS", "RI", "RR"]
        sp, ind = [], []
        g1, g2 = r(), r()
        for s in sts:
            if s[0] == "I":
                sp.append([s, "R" + s[1], g1])
            if s[1] == "I":
                sp.append([s, s[0] + "R", g2])
        t1, t2, boost = r(), r(), rng.choice([1.0, 3.0])
        for a in sts:
            for b in sts:
                if a[0] == "I" and b[0] == "S":
                    ind.append([a, b, "I" + b[1], t1 * (boost if b[1] != "S" else 1.0)])
                if a[1] == "I" and b[1] == "S":
                    ind.append([a, b, b[0] + "I", t2 * (boost if b[0] != "S" else 1.0)])
        # the same (A,B) pair may induce two outcomes (II next to SS): allowed
        return sts, sp, ind
    # random program
    pool = rng.choice([["S", "I", "R", "E"], ["S", "I", "R", "E"], ["a", "b", "c", "d"],
                       [0, 1, 2, 3], ["S", 1, "R", ("x",)]])
    k = rng.randint(2, 4)
    sts = pool[:k]
    sp, ind = [], []
    pairs = [(a, b) for a in sts for b in sts if a != b]
    rng.shuffle(pairs)
    for a, b in pairs[:rng.randint(0, min(4, len(pairs)))]:
        sp.append([a, b, r()])
    trip = [(a, b, c) for a in sts for b in sts for c in sts if b != c]
    rng.shuffle(trip)
    for a, b, c in trip[:rng.randint(0, min(5, len(trip)))]:
        ind.append([a, b, c, r()])
    return sts, sp, ind


def enc_status(s):
    return {"t": list(s)} if isinstance(s, tuple) else s


def dec_status(s):
    if isinstance(s, dict) and "t" in s:
        return tuple(s["t"])
    if isinstance(s, list):
        return tuple(s)
    return s


def gen_simple_case(rng, nmax=5, template=None):
    sts, sp, ind = gen_spec_model(rng, template)
    directed = rng.random() < 0.45
    big = len(sts) > 4
    label = rng.choice(cases.LABEL_SCHEMES)
    spec = cases.gen_graph(rng, 1, 4 if big else nmax, directed=directed, label=label,
                           edge_w=rng.choice(["dyadic", "tenth", "somezero", "twolevel"]),
                           node_w=rng.choice(["dyadic", "tenth", "somezero", "twolevel"]),
                           extra_edge_attrs={"w2": rng.choice(["tenth", "dyadic"])})
    for a in spec["nattr"]:
        a["nw2"] = cases.draw_weight(rng, "tenth")
    n = len(spec["nodes"])
    spont = []
    for a, b, rate in sp:
        c = rng.random()
        if c < 0.5:
            spont.append([enc_status(a), enc_status(b), rate, "plain", None])
        elif c < 0.75:
            spont.append([enc_status(a), enc_status(b), rate, "label", rng.choice(["nw", "nw2"])])
        else:
            spont.append([enc_status(a), enc_status(b), rate, "fn", rng.choice(sorted(NODE_FNS))])
    induced = []
    for a, b, c2, rate in ind:
        c = rng.random()
        if c < 0.5:
            induced.append([enc_status(a), enc_status(b), enc_status(c2), rate, "plain", None])
        elif c < 0.75:
            induced.append([enc_status(a), enc_status(b), enc_status(c2), rate, "label", rng.choice(["w", "w2"])])
        else:
            induced.append([enc_status(a), enc_status(b), enc_status(c2), rate, "fn", rng.choice(sorted(EDGE_FNS))])
    # initial statuses: biased so that something is enabled
    IC = [enc_status(rng.choice(sts)) for _ in range(n)]
    ret = list(sts)
    rng.shuffle(ret)
    return {"sim": "Gillespie_simple_contagion", "graph": spec, "statuses": [enc_status(s) for s in sts],
            "spont": spont, "induced": induced, "IC": IC, "ret": [enc_status(s) for s in ret],
            "tmin": rng.choice([0, 0, 5, -2.5]), "tmax": rng.choice([None, float("inf"), 1e9]),
            "ic_type": rng.choice(["dict", "defaultdict"]), "template": gen_spec_model.last,
            "ic_extra": rng.random() < 0.3}


class SimpleAdapter(object):
    name = "Gillespie_simple_contagion"

    def __init__(self, case):
        self.case = case
        spec = case["graph"]
        self.G, self.labels = cases.build_graph(spec)
        self.n = len(self.labels)
        H = nx.DiGraph()
        J = nx.DiGraph()
        self.use_kw_n = self.use_kw_e = False
        rs, ri = [], []
        for a, b, rate, mode, arg in case["spont"]:
            a, b = dec_status(a), dec_status(b)
            attrs = {"rate": rate}
            if mode == "label":
                attrs["weight_label"] = arg
            elif mode == "fn":
                attrs["rate_function"] = NODE_FNS[arg]
                if arg == "n_kw":
                    self.use_kw_n = True
            H.add_edge(a, b, **attrs)
            rs.append((a, b, rate, ref_node_w(spec, mode, arg)))
        for a, b, c, rate, mode, arg in case["induced"]:
            a, b, c = dec_status(a), dec_status(b), dec_status(c)
            attrs = {"rate": rate}
            if mode == "label":
                attrs["weight_label"] = arg
            elif mode == "fn":
                attrs["rate_function"] = EDGE_FNS[arg]
                if arg == "e_kw":
                    self.use_kw_e = True
            J.add_edge((a, b), (a, c), **attrs)
            ri.append(((a, b), (a, c), rate, ref_edge_w(spec, mode, arg)))
        # rate functions that take a keyword get it for every function of the
        # same graph (EoN passes **kwargs to each): only use kwargs when every
        # function of that kind accepts them
        fns_n = [x[4] for x in case["spont"] if x[3] == "fn"]
        fns_e = [x[5] for x in case["induced"] if x[4] == "fn"]
        self.spont_kwargs = {"scale": SCALE} if fns_n and all(f == "n_kw" for f in fns_n) else None
        self.nbr_kwargs = {"scale": SCALE} if fns_e and all(f == "e_kw" for f in fns_e) else None
        if self.use_kw_n and self.spont_kwargs is None:
            rs = [(a, b, rate, (lambda u, f=wf: f(u) / SCALE) if (arg == "n_kw") else wf)
                  for (a, b, rate, wf), (_, _, _, _m, arg) in zip(rs, case["spont"])]
        if self.use_kw_e and self.nbr_kwargs is None:
            ri = [(p, q, rate, (lambda u, v, at, f=wf: f(u, v, at) / SCALE) if (arg == "e_kw") else wf)
                  for (p, q, rate, wf), (_, _, _, _, _m, arg) in zip(ri, case["induced"])]
        self.H, self.J = H, J
        if case.get("prime", True):
            # a multi-step history on the SAME graph object: one earlier call with other attribute
            # values (all weights x7+1), then the real values are put back.  Every call must use the
            # weights the graph has at the time of the call.
            self._prime()
        self.ref = SimpleContagion(spec, rs, ri)
        self.init_state = tuple(dec_status(s) for s in case["IC"])
        self.ret = [dec_status(s) for s in case["ret"]]
        self.case_digest = case_digest(case)
        tmax = case.get("tmax")
        finite = (tmax is None) or tmax < 1e8
        self.clock = 2.0 ** -20 if finite else 1.0
        self.trans_ok = True

    def _prime(self):
        G = self.G
        saved_n = {u: dict(G.nodes[u]) for u in G.nodes()}
        saved_e = {(u, v): dict(d) for u, v, d in G.edges(data=True)}
        try:
            for u in G.nodes():
                for k in ("nw", "nw2"):
                    if k in G.nodes[u]:
                        G.nodes[u][k] = G.nodes[u][k] * 7 + 1
            for u, v, d in G.edges(data=True):
                for k in ("w", "w2"):
                    if k in d:
                        d[k] = d[k] * 7 + 1
            c = self.case
            kw = dict(tmin=c["tmin"], tmax=c["tmin"] + 1e-9, return_full_data=False)
            if self.spont_kwargs:
                kw["spont_kwargs"] = self.spont_kwargs
            if self.nbr_kwargs:
                kw["nbr_kwargs"] = self.nbr_kwargs
            self.init_state = tuple(dec_status(x) for x in c["IC"])
            run_under(SimRandom("seeded", seed=1), EoN.Gillespie_simple_contagion, G, self.H, self.J, self._ic(),
                      [dec_status(x) for x in c["ret"]], **kw)
        finally:
            for u, d in saved_n.items():
                G.nodes[u].clear()
                G.nodes[u].update(d)
            for (u, v), d in saved_e.items():
                G.edges[u, v].clear()
                G.edges[u, v].update(d)

    def _ic(self):
        d = {lab: s for lab, s in zip(self.labels, self.init_state)}
        if self.case.get("ic_extra"):
            # an initial-condition dict written for a larger population: keys that are not nodes of G
            d[("not", "a", "node")] = self.init_state[0]
            d["__outside__"] = self.init_state[-1]
            d[-12345] = self.init_state[0]
        if self.case.get("ic_type") == "defaultdict":
            dd = defaultdict(lambda: self.init_state[0])
            dd.update(d)
            return dd
        return d

    def run(self, script, full=True, ret=None):
        c = self.case
        sim = SimRandom(SCRIPTED, script=script, end_on_clock=True)
        kw = dict(tmin=c["tmin"], return_full_data=full)
        if c.get("tmax") is not None:
            kw["tmax"] = c["tmax"]
        if self.spont_kwargs:
            kw["spont_kwargs"] = self.spont_kwargs
        if self.nbr_kwargs:
            kw["nbr_kwargs"] = self.nbr_kwargs
        return run_under(sim, EoN.Gillespie_simple_contagion, self.G, self.H, self.J, self._ic(),
                         list(ret if ret is not None else self.ret), **kw)

    def decode(self, res):
        ev, final, first, tok = walks.decode_investigation(res.value, self.labels)
        self.trans_ok = tok
        return [(e[1], e[2], e[3]) for e in ev], final

    def sig_of(self, res):
        if res.status == "exc":
            return ("exc", type(res.exc).__name__)
        if res.status != "done":
            return (res.status,)
        ev, final = self.decode(res)
        return (tuple(ev[-1:]), final)

    def code_key(self, ev, state):
        i, s, src = ev
        if src is None:
            return ("sp", i, state[i], s)
        return ("ind", src, i, state[i], s)

    def project(self, rk):
        return rk

    def hints(self, state):
        ev = self.ref.enabled(state)
        tot = sum(ev.values())
        h = set()
        if tot <= 0:
            return h
        groups = {}
        for k, r in ev.items():
            g = (0, repr((k[2], k[3]))) if k[0] == "sp" else (1, repr(((state[k[1]], k[3]), (state[k[1]], k[4]))))
            groups.setdefault(g, []).append(r)
        acc = 0.0
        for g in sorted(groups):
            acc += sum(groups[g]) / tot
            h.add(acc)
            m = max(groups[g])
            for r in groups[g]:
                h.add(r / m)
        return h


def simple_prefer(rng, cands, state, step):
    c = rng.random()
    if c < 0.4:
        ind = [k for k in cands if k[0] == "ind"]
        if ind:
            return rng.choice(ind)
    return rng.choice(cands)


def check_counts(ad, prefix, case_of, rng):
    """arrays mode under the same script: times and counts for a random
    subset / order of return_statuses must track the histories."""
    sts = [dec_status(s) for s in ad.case["statuses"]]
    ret = list(sts)
    rng.shuffle(ret)
    ret = ret[:rng.randint(1, len(ret))]
    res = ad.run(prefix, full=False, ret=ret)
    resf = ad.run(prefix, full=True)
    if res.status != "done" or resf.status != "done":
        if res.status != resf.status:
            return [walks.V("rows", "%s/modes-differ" % ad.name,
                            "same script: arrays mode ends %r, full data ends %r" % (res, resf), case_of(prefix))]
        return []
    try:
        arrs = res.value
        if len(arrs) != len(ret) + 1:
            raise ValueError("expected %d arrays" % (len(ret) + 1))
        rows = [tuple([float(arrs[0][k])] + [int(a[k]) for a in arrs[1:]]) for k in range(len(arrs[0]))]
    except Exception as e:
        return [walks.V("rows", "%s/rows-shape" % ad.name, "arrays mode returned %r (%s)" % (res.value, e),
                        case_of(prefix))]
    ev, final, first, tok = walks.decode_investigation(resf.value, ad.labels)
    st = list(first)
    want = [tuple([float(ad.case["tmin"])] + [st.count(x) for x in ret])]
    for (tt, i, s, src) in ev:
        st[i] = s
        want.append(tuple([float(tt)] + [st.count(x) for x in ret]))
    if rows != want:
        return [walks.V("rows", "%s/rows-vs-histories" % ad.name,
                        "return_statuses=%r, same draws: arrays %r but histories give %r" % (ret, rows, want),
                        case_of(prefix))]
    return []


# =====================================================================
# Gillespie_complex_contagion (C15)
# =====================================================================
COMPLEX_MODELS = ("sir_rates", "sis_rates", "threshold", "longrange", "chooser", "nodew", "binary01", "seir_rates", "lazy")


def _nbrs(G, node):
    return list(G.neighbors(node))


def _two_hop(G, node):
    out = []
    seen = {node}
    for a in G.neighbors(node):
        if a not in seen:
            seen.add(a)
            out.append(a)
    for a in list(out):
        for b in G.neighbors(a):
            if b not in seen:
                seen.add(b)
                out.append(b)
    return out


def make_complex_model(name, params):
    """Returns (rate_function, transition_choice, get_influence_set, statuses).
    All are pure functions of (G, node, status, parameters)."""
    if name in ("sir_rates", "sis_rates", "nodew"):
        after = "S" if name == "sis_rates" else "R"

        def rate(G, node, status, parameters):
            tau, gamma = parameters[0], parameters[1]
            m = G.nodes[node].get("nw", 1.0) if name == "nodew" else 1.0
            if status[node] == "I":
                return gamma * m
            if status[node] == "S":
                return tau * m * len([x for x in G.neighbors(node) if status[x] == "I"])
            return 0

        def choose(G, node, status, parameters):
            return "I" if status[node] == "S" else after
        return rate, choose, (lambda G, node, status, parameters: _nbrs(G, node)), ["S", "I", after] if after == "R" else ["S", "I"]
    if name == "threshold":
        def rate(G, node, status, parameters):
            tau, gamma, k = parameters[0], parameters[1], parameters[2]
            if status[node] == "I":
                return gamma
            if status[node] == "S":
                c = len([x for x in G.neighbors(node) if status[x] == "I"])
                return tau if c >= k else 0
            return 0

        def choose(G, node, status, parameters):
            return "I" if status[node] == "S" else "R"
        return rate, choose, (lambda G, node, status, parameters: _nbrs(G, node)), ["S", "I", "R"]
    if name == "longrange":
        def rate(G, node, status, parameters):
            tau, gamma = parameters[0], parameters[1]
            if status[node] == "I":
                return gamma
            if status[node] == "S":
                one = set(G.neighbors(node))
                r = 0.0
                for x in _two_hop(G, node):
                    if status[x] == "I":
                        r += tau if x in one else 0.3 * tau
                return r
            return 0

        def choose(G, node, status, parameters):
            return "I" if status[node] == "S" else "S"
        return rate, choose, (lambda G, node, status, parameters: _two_hop(G, node)), ["S", "I"]
    if name == "lazy":
        # the chooser may answer the node's CURRENT status (a failed attempt): the event happens,
        # takes its exponential time, and changes nothing
        def rate(G, node, status, parameters):
            tau, gamma = parameters[0], parameters[1]
            if status[node] == "I":
                return gamma
            if status[node] == "S":
                return tau * (0.5 + len([x for x in G.neighbors(node) if status[x] == "I"]))
            return 0

        def choose(G, node, status, parameters):
            if status[node] == "I":
                return "S"
            k = len([x for x in G.neighbors(node) if status[x] == "I"])
            return "I" if k % 2 == 1 else "S"      # an even number of infectious neighbours: the attempt fails
        return rate, choose, (lambda G, node, status, parameters: _nbrs(G, node)), ["S", "I"]
    if name == "binary01":
        # integer statuses 1 (active) / 0 (inactive): the chooser's answer 0 is falsy
        def rate(G, node, status, parameters):
            tau, gamma = parameters[0], parameters[1]
            if status[node] == 1:
                return gamma
            return tau * (0.25 + len([x for x in G.neighbors(node) if status[x] == 1]))

        def choose(G, node, status, parameters):
            return 0 if status[node] == 1 else 1
        return rate, choose, (lambda G, node, status, parameters: _nbrs(G, node)), [0, 1]
    if name == "seir_rates":
        # several stages with different rates: after an event many nodes can share the same rate
        def rate(G, node, status, parameters):
            tau, gamma = parameters[0], parameters[1]
            s_ = status[node]
            if s_ == "E":
                return 2.0 * gamma
            if s_ == "I":
                return gamma
            if s_ == "S":
                return tau * len([x for x in G.neighbors(node) if status[x] == "I"])
            return 0

        def choose(G, node, status, parameters):
            return {"S": "E", "E": "I", "I": "R"}[status[node]]

        def infl(G, node, status, parameters):
            # a covering set that depends on the node's CURRENT (new) status: a node that has just become
            # E changes nobody's rate; one that became I or R changes its neighbours' rates
            return _nbrs(G, node) if status[node] in ("I", "R") else []
        return rate, choose, infl, ["S", "E", "I", "R"]
    if name == "chooser":
        def rate(G, node, status, parameters):
            tau, gamma = parameters[0], parameters[1]
            s = status[node]
            if s in ("A", "B"):
                return gamma * (1.0 if s == "A" else 0.7)
            if s == "S":
                return tau * (0.1 + len([x for x in G.neighbors(node) if status[x] in ("A", "B")]))
            return 0

        def choose(G, node, status, parameters):
            s = status[node]
            if s == "S":
                a = len([x for x in G.neighbors(node) if status[x] == "A"])
                b = len([x for x in G.neighbors(node) if status[x] == "B"])
                return "A" if a >= b else "B"
            if s == "A":
                return "R"
            return "S"
        return rate, choose, (lambda G, node, status, parameters: _nbrs(G, node)), ["S", "A", "B", "R"]
    raise ValueError(name)


class ComplexRef(object):
    """Reference for C15: rates are the user function evaluated from scratch on
    the current statuses of all nodes."""

    def __init__(self, G, labels, rate, choose, params):
        self.G, self.labels, self.rate, self.choose, self.params = G, labels, rate, choose, params
        self.n = len(labels)

    def _status(self, state):
        return {lab: s for lab, s in zip(self.labels, state)}

    def enabled(self, state):
        st = self._status(state)
        ev = {}
        for i, lab in enumerate(self.labels):
            r = self.rate(self.G, lab, st, self.params)
            if r > 0:
                ev[(i, self.choose(self.G, lab, st, self.params))] = r
        return ev

    def apply(self, state, ev):
        s = list(state)
        s[ev[0]] = ev[1]
        return tuple(s)


def gen_complex_case(rng, model=None):
    model = model or rng.choice(COMPLEX_MODELS)
    label = rng.choice(cases.LABEL_SCHEMES)
    spec = cases.gen_graph(rng, 1, 6, directed=False, label=label,
                           node_w=rng.choice(["tenth", "dyadic", "twolevel", "wide"]))
    n = len(spec["nodes"])
    tau = rng.choice([0.3, 0.7, 1.3, 0.1, 1.0, 0.0])
    gamma = rng.choice([0.3, 0.7, 1.3, 0.1, 1.0, 0.0])
    params = [tau, gamma, rng.choice([1, 1, 2, 3])]
    _, _, _, sts = make_complex_model(model, params)
    seeds = [s for s in sts if s not in ("S", "R", 0)]
    base = "S" if "S" in sts else sts[0]
    IC = []
    for i in range(n):
        c = rng.random()
        IC.append(rng.choice(seeds) if c < 0.4 else (base if c < 0.9 else sts[-1]))
    ret = list(sts)
    rng.shuffle(ret)
    return {"sim": "Gillespie_complex_contagion", "graph": spec, "model": model, "params": params,
            "infl_kind": rng.choice(["list", "iterator", "generator", "tuple", "set", "dictkeys"]),
            "ic_extra": rng.random() < 0.3,
            "IC": IC, "ret": ret, "tmin": rng.choice([0, 0, 5, -2.5]),
            "tmax": rng.choice([None, float("inf"), float("inf"), 1e9])}


class ComplexAdapter(object):
    name = "Gillespie_complex_contagion"

    def __init__(self, case):
        self.case = case
        self.G, self.labels = cases.build_graph(case["graph"])
        self.n = len(self.labels)
        self.params = tuple(case["params"])
        self.rate, self.choose, infl_list, self.statuses = make_complex_model(case["model"], self.params)
        kind = case.get("infl_kind", "list")
        # F7: the influence set may legally be any iterable - a list, a one-shot
        # iterator (the docstring's own G.neighbors(node)), a generator, a set ...
        if kind == "iterator":
            self.infl = lambda G, node, status, parameters: iter(infl_list(G, node, status, parameters))
        elif kind == "generator":
            self.infl = lambda G, node, status, parameters: (x for x in infl_list(G, node, status, parameters))
        elif kind == "tuple":
            self.infl = lambda G, node, status, parameters: tuple(infl_list(G, node, status, parameters))
        elif kind == "set":
            self.infl = lambda G, node, status, parameters: set(infl_list(G, node, status, parameters))
        elif kind == "dictkeys":
            self.infl = lambda G, node, status, parameters: dict.fromkeys(infl_list(G, node, status, parameters)).keys()
        else:
            self.infl = infl_list
        self.ref = ComplexRef(self.G, self.labels, self.rate, self.choose, self.params)
        self.init_state = tuple(case["IC"])
        self.case_digest = case_digest(case)
        tmax = case.get("tmax")
        self.clock = 2.0 ** -20 if (tmax is None or tmax < 1e8) else 1.0
        self.calls = None

    def run(self, script, full=True, ret=None, spy=None):
        c = self.case
        sim = SimRandom(SCRIPTED, script=script, end_on_clock=True)
        kw = dict(tmin=c["tmin"], return_full_data=full, parameters=self.params)
        if c.get("tmax") is not None:
            kw["tmax"] = c["tmax"]
        IC = {lab: s for lab, s in zip(self.labels, self.init_state)}
        if c.get("ic_extra"):
            IC[("not", "a", "node")] = self.init_state[0]
            IC["__outside__"] = self.init_state[-1]
        rate, choose, infl = self.rate, self.choose, self.infl
        if spy is not None:
            def rate(G, node, status, parameters, _f=self.rate):  # noqa: F811
                spy.append(("rate", node, dict(status), G is self.G, parameters))
                return _f(G, node, status, parameters)

            def choose(G, node, status, parameters, _f=self.choose):  # noqa: F811
                spy.append(("choose", node, dict(status), G is self.G, parameters))
                return _f(G, node, status, parameters)

            def infl(G, node, status, parameters, _f=self.infl):  # noqa: F811
                spy.append(("infl", node, dict(status), G is self.G, parameters))
                return _f(G, node, status, parameters)
        return run_under(sim, EoN.Gillespie_complex_contagion, self.G, rate, choose, infl, IC,
                         list(ret if ret is not None else c["ret"]), **kw)

    def decode(self, res):
        ev, final, first, tok = walks.decode_investigation(res.value, self.labels, with_trans=False)
        return [(e[1], e[2], None) for e in ev], final

    def sig_of(self, res):
        if res.status == "exc":
            return ("exc", type(res.exc).__name__)
        if res.status != "done":
            return (res.status,)
        ev, final = self.decode(res)
        return (tuple(ev[-1:]), final)

    def code_key(self, ev, state):
        return (ev[0], ev[1])

    def project(self, rk):
        return rk

    def hints(self, state):
        ev = self.ref.enabled(state)
        h = set()
        if ev:
            m = max(ev.values())
            for r in ev.values():
                h.add(r / m)
        return h


def check_complex_rows_and_spies(ad, prefix, case_of, rng):
    """Same script: (1) arrays mode with a random subset/order of
    return_statuses tracks the histories; (2) every callback was invoked with
    the caller's G and parameters, and with statuses equal to the state the
    history had at that moment."""
    sts = list(ad.statuses)
    ret = list(sts)
    rng.shuffle(ret)
    ret = ret[:rng.randint(1, len(ret))]
    spy = []
    res = ad.run(prefix, full=False, ret=ret)
    resf = ad.run(prefix, full=True, spy=spy)
    if res.status != "done" or resf.status != "done":
        if res.status != resf.status:
            return [walks.V("rows", "%s/modes-differ" % ad.name,
                            "same script: arrays mode ends %r, full data ends %r" % (res, resf), case_of(prefix))]
        return []
    try:
        arrs = res.value
        if len(arrs) != len(ret) + 1:
            raise ValueError("expected %d arrays" % (len(ret) + 1))
        rows = [tuple([float(arrs[0][k])] + [int(a[k]) for a in arrs[1:]]) for k in range(len(arrs[0]))]
    except Exception as e:
        return [walks.V("rows", "%s/rows-shape" % ad.name, "arrays mode returned %r (%s)" % (res.value, e),
                        case_of(prefix))]
    ev, final, first, tok = walks.decode_investigation(resf.value, ad.labels, with_trans=False)
    st = list(first)
    states = [tuple(st)]
    want = [tuple([float(ad.case["tmin"])] + [st.count(x) for x in ret])]
    for (tt, i, s, src) in ev:
        st[i] = s
        states.append(tuple(st))
        want.append(tuple([float(tt)] + [st.count(x) for x in ret]))
    if rows != want:
        return [walks.V("rows", "%s/rows-vs-histories" % ad.name,
                        "return_statuses=%r, same draws: arrays %r but histories give %r" % (ret, rows, want),
                        case_of(prefix))]
    # spies: statuses seen by callbacks form the sequence of history states
    k = 0
    for (kind, node, seen, same_g, params) in spy:
        tup = tuple(seen.get(lab) for lab in ad.labels)
        if not same_g or tuple(params) != tuple(ad.params):
            return [walks.V("callback_args", "%s/callback-args" % ad.name,
                            "%s callback got G is caller's=%r parameters=%r" % (kind, same_g, params), case_of(prefix))]
        # a callback sees the current history state or a later one (never an earlier one again);
        # consecutive history states can be equal (an event that changes nothing)
        j = k
        while j < len(states) and states[j] != tup:
            j += 1
        if j < len(states) and j - k <= 1 + sum(1 for a, b in zip(states[k:], states[k + 1:]) if a == b):
            k = j
            continue
        return [walks.V("stale_status", "%s/callback-saw-stale-statuses" % ad.name,
                        "%s(%r) was evaluated on statuses %r; history states around it: %r"
                        % (kind, node, tup, states[max(0, k - 1):k + 2]), case_of(prefix))]
    return []
