"""Shared pieces of the C01 / C02 / C16 checks: E1 walks on Gillespie_SIR and
Gillespie_SIS, and the E3 law test on the fast_* simulators."""
import random as _random

from . import cases, lawtest, walks, load_eon
from .adapters import MarkovAdapter
from .explorer import Skip
from .refmodels import CTMC

EoN = load_eon()


# ------------------------------------------------------------------ E1
def gen_walk_case(rng, sim, heavy_churn=False):
    label = rng.choice(cases.LABEL_SCHEMES)
    schemes = list(cases.WEIGHT_SCHEMES)
    if heavy_churn:
        ew = rng.choice(["twolevel", "wide", "tenth", "somezero", "tiny"])
        nw = rng.choice([None, "twolevel", "wide", "somezero", "tiny"])
    else:
        ew = rng.choice([None, None] + schemes)
        nw = rng.choice([None, None] + schemes)
    spec = cases.gen_graph(rng, 1 if not heavy_churn else 3, 6, directed=False, label=label,
                           edge_w=ew, node_w=nw, selfloops=0.15)
    n = len(spec["nodes"])
    idx = list(range(n))
    rng.shuffle(idx)
    k = 1 if rng.random() < 0.5 else rng.randint(1, n)
    I0 = idx[:k]
    rest = idx[k:]
    R0 = []
    sis = sim.endswith("SIS")
    if rest and rng.random() < 0.4 and not sis:
        R0 = rest[:rng.randint(1, len(rest))]
    tmax = None
    if sis:
        tmax = rng.choice([None, float("inf"), 1e9])
        if "tiny" in (ew, nw):
            # rates ~1e-9: the default horizon (100) would end the run before the
            # first event whatever the clock answer; use an unbounded horizon
            tmax = float("inf")
    return {"sim": sim, "graph": spec, "tau": cases.draw_rate(rng, allow_zero=not heavy_churn),
            "gamma": cases.draw_rate(rng), "I0": I0, "R0": R0,
            "R0_given": bool(R0) or (rng.random() < 0.2 and not sis),
            "tmin": rng.choice([0, 0, 5, -2.5]), "tmax": tmax,
            "ew": bool(ew), "nw": bool(nw), "ew_scheme": ew, "nw_scheme": nw}


def prefer(rng, cands, state, step):
    c = rng.random()
    if c < 0.35:
        inf = [k for k in cands if k[0] == "inf"]
        if inf:
            return rng.choice(inf)
    elif c < 0.5:
        rec = [k for k in cands if k[0] == "rec"]
        if rec:
            return rng.choice(rec)
    return rng.choice(cands)


def check_rows(ad, prefix, case_of):
    """Both return modes consume the same draws: arrays rows == event counts."""
    res = ad.run(prefix, full=False)
    resf = ad.run(prefix, full=True)
    if res.status != "done" or resf.status != "done":
        if res.status != resf.status:
            return [walks.V("rows", "%s/modes-differ" % ad.name,
                            "same script: arrays mode ends %r, full data ends %r" % (res, resf), case_of(prefix))]
        return []
    sts = ("S", "I") if ad.sis else ("S", "I", "R")
    try:
        arrs = res.value
        rows = [tuple([float(arrs[0][k])] + [int(a[k]) for a in arrs[1:]]) for k in range(len(arrs[0]))]
        if len(arrs) != len(sts) + 1:
            raise ValueError("wrong number of arrays")
    except Exception as e:
        return [walks.V("rows", "%s/rows-shape" % ad.name, "arrays mode returned %r (%s)" % (res.value, e),
                        case_of(prefix))]
    ev, final, first, tok = walks.decode_investigation(resf.value, ad.labels)
    st = list(first)
    want = [tuple([float(ad.case["tmin"])] + [st.count(x) for x in sts])]
    for (tt, i, s, src) in ev:
        st[i] = s
        want.append(tuple([float(tt)] + [st.count(x) for x in sts]))
    if rows != want:
        return [walks.V("rows", "%s/rows-vs-histories" % ad.name,
                        "same draws: arrays %r but histories give %r" % (rows, want), case_of(prefix))]
    return []


def run_walk(case, rng, max_steps, stats, keys):
    ad = MarkovAdapter(case)
    last = {"prefix": []}

    def case_of(prefix):
        c = dict(case)
        c["prefix"] = [list(e) for e in prefix]
        return c
    try:
        v = walks.walk(ad, rng, max_steps, stats, case_of, keys=keys, prefer=prefer, trace=last)
        if not v:
            v = check_rows(ad, last["prefix"], case_of)
            stats["rows_checked"] = stats.get("rows_checked", 0) + 1
    except Skip as e:
        return [], "skip: %s" % str(e)[:60]
    return v, None


def norm_prefix(case):
    out = []
    for e in case.get("prefix", []):
        if e[0] == "s":
            out.append(("s", tuple(e[1])))
        else:
            out.append((e[0], e[1]))
    return out


def replay_walk(case, adapter_cls=MarkovAdapter, rows=True):
    ad = adapter_cls(case)
    prefix = norm_prefix(case)

    def case_of(p):
        c = dict(case)
        c["prefix"] = [list(e) for e in p]
        return c
    stats = {}
    if not prefix:
        return walks.walk(ad, _random.Random(1), 1, stats, case_of)
    if rows and hasattr(ad, "sis"):
        v = check_rows(ad, prefix, case_of)
        if v:
            return v
    res = ad.run(prefix)
    if res.status == "exc":
        return [walks.V("crash", "%s/exception/%s" % (ad.name, type(res.exc).__name__), str(res.exc), case)]
    # the stored prefix may end inside a step (event_effect): also probe from its last clock
    cuts = [i for i, e in enumerate(prefix) if e[0] == "e"]
    tries = [prefix] + ([prefix[:cuts[-1]]] if cuts else [])
    for p in tries:
        r = ad.run(p)
        if r.status != "done":
            continue
        ev, final = ad.decode(r)
        v, _ = walks.probe_state(ad, p, final, len(ev), r.next_clock, stats, case_of)
        if v:
            return v
    return []


# ------------------------------------------------------------------ E3
def law_sample(cfg, n, seed):
    G, labels = cases.build_graph(cfg["graph"])
    fn = getattr(EoN, cfg["sim"])
    sis = cfg["sim"].endswith("SIS")
    kw = dict(initial_infecteds=[labels[i] for i in cfg["I0"]], return_full_data=True,
              transmission_weight="w" if cfg["ew"] else None,
              recovery_weight="nw" if cfg["nw"] else None)
    if cfg.get("R0"):
        kw["initial_recovereds"] = [labels[i] for i in cfg["R0"]]
    if cfg.get("tmax") is not None:
        kw["tmax"] = cfg["tmax"]
    T = cfg["T"]
    tau, gamma = cfg["tau"], cfg["gamma"]
    final_ok = (gamma > 0) and not sis

    def call():
        return fn(G, tau, gamma, **kw)

    def stat(sim):
        out = []
        for j, tt in enumerate(T):
            d = sim.get_statuses(time=tt)
            out.append((j, "".join(d[x] for x in labels)))
        if final_ok:
            d = sim.get_statuses(time=1e300)
            out.append(("F", "".join(d[x] for x in labels)))
        return out
    return lawtest.sample_counts(call, n, seed, stat)


def law_expected(cfg):
    sis = cfg["sim"].endswith("SIS")
    ref = CTMC(cfg["graph"], cfg["tau"], cfg["gamma"], sis=sis,
               edge_w="w" if cfg["ew"] else None, node_w="nw" if cfg["nw"] else None)
    n = len(cfg["graph"]["nodes"])
    st = ["S"] * n
    for i in cfg["I0"]:
        st[i] = "I"
    for i in cfg.get("R0", []):
        st[i] = "R"
    init = tuple(st)
    exp = {}
    for j, tt in enumerate(cfg["T"]):
        exp[j] = {"".join(s): p for s, p in ref.dist_at(init, tt).items()}
    if cfg["gamma"] > 0 and not sis:
        exp["F"] = {"".join(s): p for s, p in ref.absorption(init).items()}
    return exp


def law_finalize(parts, cfgs, seed, prop):
    by = {}
    for (_fam, _idx), p in parts:
        d = by.setdefault(p["cfg"], {"n": 0, "counts": {}})
        d["n"] += p["n"]
        for k, v in p["counts"].items():
            d["counts"][k] = d["counts"].get(k, 0) + v
    tests = []
    keys = []
    for j in sorted(by):
        cfg = cfgs[j]
        exp = law_expected(cfg)
        n = by[j]["n"]
        for statname, dist in exp.items():
            counts = {}
            for k, v in by[j]["counts"].items():
                kk = eval(k)
                if kk[0] == statname:
                    counts[kk[1]] = v
            cells = lawtest.test_cells(n, counts, dist)
            tests.append(((j, statname), n, cells))
            for k, o, p in cells:
                keys.append("law|%d|%s|%s" % (j, statname, k))
    fails, ncells, worst = lawtest.decide(tests)
    viol = []
    for (label, k, o, n, p, pv) in fails[:3]:
        j, statname = label
        cfg = cfgs[j]
        viol.append({"cls": "law", "key": "%s/%s/law" % (cfg["sim"], cfg["kind"]),
                     "msg": "config %d (%s): statistic %r cell %r observed %d of %d, reference probability %.6g, "
                            "two-sided exact binomial p=%.3g < %.3g" % (j, cfg["kind"], statname, k, o, n, p, pv,
                                                                        lawtest.DELTA / max(1, ncells)),
                     "case": {"law_cfg": cfg, "n": n, "seed": seed, "cfg_index": j},
                     "family": "law", "idx": j})
    stats = {"law_cells_tested": ncells, "law_configs": len(by)}
    if worst:
        stats["law_worst_z"] = round(worst[0], 3)
        stats["law_worst_cell"] = "%r %s obs=%d n=%d p=%.5g" % (worst[1], worst[2], worst[3], worst[4], worst[5])
    samples = []
    if by:
        j = sorted(by)[0]
        samples.append({"family": "law", "run_index": j, "case": cfgs[j]})
    return {"viol": viol, "stats": stats, "keys": keys, "samples": samples}


def law_replay(case):
    cfg = case["law_cfg"]
    n = case["n"]
    counts = law_sample(cfg, n, case["seed"] * 7919 + case["cfg_index"])
    exp = law_expected(cfg)
    tests = []
    for statname, dist in exp.items():
        c = {k[1]: v for k, v in counts.items() if k[0] == statname}
        tests.append(((case["cfg_index"], statname), n, lawtest.test_cells(n, c, dist)))
    fails, ncells, worst = lawtest.decide(tests)
    return [{"cls": "law", "key": "%s/%s/law" % (cfg["sim"], cfg["kind"]),
             "msg": "replay: %r" % (fails[0],), "case": case}] if fails else []
