"""E5 - call-sequence / aliasing machine (C19): deep structural snapshots of
argument objects around each call of a seeded sequence of calls that share
them."""
import collections

import networkx as nx
import numpy as np


def snap(x, depth=0):
    """Hash-seed independent deep structural snapshot."""
    if depth > 6:
        return ("deep", repr(type(x)))
    if isinstance(x, np.ndarray):
        return ("nd", x.shape, str(x.dtype), bool(x.flags.writeable), x.tobytes())
    if isinstance(x, np.generic):
        return ("ng", str(x.dtype), x.item())
    if isinstance(x, (nx.Graph, nx.DiGraph)):
        return ("graph", type(x).__name__, x.is_directed(),
                tuple((repr(n), snap(dict(d), depth + 1)) for n, d in x.nodes(data=True)),
                tuple((repr(u), repr(v), snap(dict(d), depth + 1)) for u, v, d in x.edges(data=True)),
                snap(dict(x.graph), depth + 1))
    if isinstance(x, collections.defaultdict):
        return ("ddict", tuple((repr(k), snap(v, depth + 1)) for k, v in x.items()))
    if isinstance(x, dict):
        return ("dict", tuple((repr(k), snap(v, depth + 1)) for k, v in x.items()))
    if isinstance(x, (list, tuple)):
        return (type(x).__name__, tuple(snap(v, depth + 1) for v in x))
    if isinstance(x, (set, frozenset)):
        return (type(x).__name__, tuple(sorted(repr(v) for v in x)))
    if isinstance(x, range):
        return ("range", x.start, x.stop, x.step)
    if isinstance(x, (int, float, str, bool)) or x is None:
        return ("v", type(x).__name__, x)
    if callable(x):
        return ("fn", getattr(x, "__name__", "callable"))
    return ("obj", repr(type(x)))


def ddict_ok(before, after, factory):
    """A defaultdict argument may gain keys by being *read* (Python semantics of
    the caller's own container); existing entries must be untouched and new
    entries must carry the default value."""
    b = dict(before[1])
    a = dict(after[1])
    for k, v in b.items():
        if a.get(k) != v:
            return False
    dflt = snap(factory()) if factory is not None else None
    for k, v in a.items():
        if k not in b and v != dflt:
            return False
    return True


def diff(names, before, after, objs):
    """Names of argument objects whose snapshot changed."""
    out = []
    for nm in names:
        if before[nm] == after[nm]:
            continue
        o = objs[nm]
        if isinstance(o, collections.defaultdict) and ddict_ok(before[nm], after[nm], o.default_factory):
            continue
        out.append(nm)
    return out


def describe(x):
    if isinstance(x, np.ndarray):
        return "ndarray shape=%r dtype=%s %r" % (x.shape, x.dtype, x.tolist() if x.size <= 12 else "...")
    if isinstance(x, (nx.Graph, nx.DiGraph)):
        return "%s nodes=%r edges=%r" % (type(x).__name__, list(x.nodes(data=True))[:6], list(x.edges(data=True))[:6])
    return repr(x)[:200]


def result_digest(v):
    import hashlib
    h = hashlib.sha256()

    def feed(y):
        if isinstance(y, np.ndarray):
            h.update(str(y.shape).encode()); h.update(np.ascontiguousarray(y).tobytes())
        elif isinstance(y, (list, tuple)):
            h.update(b"(")
            for z in y:
                feed(z)
            h.update(b")")
        elif isinstance(y, dict):
            for k in sorted(y, key=repr):
                h.update(repr(k).encode()); feed(y[k])
        else:
            h.update(repr(y).encode())
    feed(v)
    return h.hexdigest()[:20]
