"""E1 - draw-tree explorer: the exact one-step kernel of the real code.

explore(run, base, ...) enumerates the tree of draws the code makes after the
script ``base`` by re-execution, and returns leaves with their probability
mass.  Nothing is assumed about which draw comes first or how many there are;
only the documented contracts of random()/choice()/sample()/binomial() and
that each use of a uniform is a monotone step function of u.
"""
import itertools
import math

from .seam import ONE_MINUS

TOL = 2.0 ** -35        # breakpoints are located to this precision
HINT_D = 2.0 ** -36     # a hint h is bracketed by h-d, h+d
MAX_DEPTH = 48          # draws in one step (one path of the tree)
MAX_NEST = 120          # nested expansions (exact mode explores subtrees inside subtrees)


class Skip(Exception):
    """The explorer cannot enumerate this step (harness limitation, never a
    verdict)."""


class Leaf(object):
    __slots__ = ("mass", "path", "res", "kind")

    def __init__(self, mass, path, res, kind):
        self.mass = mass
        self.path = path
        self.res = res
        self.kind = kind    # done | exc | after_end | stuck

    def __repr__(self):
        return "Leaf(%.6g,%s,%r)" % (self.mass, self.kind, self.path)


class Explorer(object):
    def __init__(self, run, sig_of, max_runs=20000, hints=(), exact=False):
        """run(script) -> RunResult;  sig_of(res) -> hashable summary of a
        finished run (used to tell regions of a uniform apart).

        exact=False: a value of a uniform is characterised by the pending
        request that follows it plus two canonical completions (all later
        draws answered low / high) with their request logs.  Cheap, but two
        values with different continuation *laws* could in principle look the
        same.  exact=True characterises a value by the complete law of the
        subtree below it (sound under the monotone-step assumption, costs a
        subtree exploration per probe).  Callers explore fast and re-explore
        exactly before reporting any disagreement, so a wrong merge can never
        become an alarm."""
        self.run = run
        self.sig_of = sig_of
        self.max_runs = max_runs
        self.hints = [h for h in hints if h is not None and 0.0 < h < 1.0]
        self.exact = exact
        self._cur_anchor = None
        self._nest = 0
        self.runs = 0
        self.bisect_probes = 0
        self.hint_hits = 0
        self.breakpoints = 0
        self.loops = 0

    # ------------------------------------------------------------ running
    def _run(self, script):
        self.runs += 1
        if self.runs > self.max_runs:
            raise Skip("run budget exhausted")
        res = self.run(script)
        if res.status in ("unsupported", "mismatch", "bypassed", "runaway"):
            raise Skip("%s: %r" % (res.status, res.exc))
        return res

    def _canon(self, script, res, high):
        """Follow one canonical path (later draws answered low or high) to a
        finished run; returns its summary and the requests met on the way."""
        attempt = 0
        script = list(script)
        n0 = len(script)
        for _ in range(24):
            if res.status != "pending":
                # requests made after the starting point (relative: two visits of the same program
                # state give the same continuation whatever came before)
                reqs = tuple((e[0], e[1]) for e in (res.log or ())[n0:n0 + 40])
                return (res.status, self.sig_of(res), reqs)
            kind = res.pending[0]
            raw = res.sim.pending_raw
            if kind == "c":
                n = len(raw)
                script.append(("c", (n - 1 - attempt % n) if high else attempt % n))
                attempt += 1
            elif kind == "r":
                script.append(("r", ONE_MINUS if high else 0.0))
            elif kind == "s":
                k = raw[1]
                n = len(raw[0])
                script.append(("s", tuple(range(n - k, n)) if high else tuple(range(k))))
            elif kind == "b":
                script.append(("b", int(raw[0]) if high else 0))
            else:
                return ("pending", res.pending, ())
            res = self._run(script)
        return ("deep", None, ())

    def _same_state(self, base, path, a_script, res_x):
        """Is the choice request met now a *retry* of the ancestor choice at
        path[:a_len] (rejection sampling), i.e. the same program state?  The same
        request recurring after a uniform is not enough (two different nodes may
        both draw randrange(2)): the canonical continuations from both points -
        outcomes and the requests they make - must coincide."""
        sa = list(a_script)
        sx = base + path
        ra = self._run(sa)
        if ra.status != "pending" or ra.pending != res_x.pending:
            return False
        for high in (False, True):
            if self._canon(sa, ra, high) != self._canon(sx, res_x, high):
                return False
        return True

    def _subtree_law(self, script):
        leaves, retry = self._expand(list(script), [], 1.0, self._cur_anchor, True)
        law = {}
        for lf in leaves:
            k = (lf.kind, repr(self.sig_of(lf.res)) if lf.kind in ("done", "exc") else None)
            law[k] = law.get(k, 0.0) + lf.mass
        if retry:
            law[("retry",)] = retry
        return tuple(sorted((k, round(v, 9)) for k, v in law.items()))

    def _sig(self, script):
        res = self._run(script)
        if self.exact:
            if res.status == "pending":
                return ("law", res.pending, self._subtree_law(script)), res
            return (res.status, None, self.sig_of(res)), res
        if res.status == "pending":
            return (res.status, res.pending, self._canon(script, res, False), self._canon(script, res, True)), res
        return (res.status, None, self.sig_of(res)), res

    # ---------------------------------------------------------- uniforms
    def _regions(self, script):
        """Regions of [0,1) on which the continuation after random() is
        constant: list of (lo, hi, rep_u, res_at_rep)."""
        cache = {}

        def f(u):
            if u not in cache:
                cache[u] = self._sig(script + [("r", u)])
            return cache[u][0]

        pts = {0.0, ONE_MINUS}
        for h in self.hints:
            # brackets and stopping rule are *relative*: acceptance
            # probabilities far below 1 (weight / max weight) are renormalised
            # by the rejection loop, which amplifies absolute errors
            a, b = h * (1.0 - HINT_D), h * (1.0 + HINT_D)
            if a > 0.0:
                pts.add(a)
            if b < ONE_MINUS:
                pts.add(b)
        pts = sorted(pts)
        bps = []

        def refine(a, b):
            fa, fb = f(a), f(b)
            if fa == fb:
                return
            if b - a <= TOL * b or b < 1e-300:
                bps.append((0.5 * (a + b), fa, fb))
                return
            m = 0.5 * (a + b)
            self.bisect_probes += 1
            f(m)
            refine(a, m)
            refine(m, b)

        # cheap first pass: evaluate only the ends; hints are used only when
        # the ends differ (a constant uniform needs two probes)
        if f(0.0) == f(ONE_MINUS):
            return [(0.0, 1.0, 0.5, None)]
        for a, b in zip(pts[:-1], pts[1:]):
            before = len(bps)
            refine(a, b)
            if b - a <= TOL * b and len(bps) > before:
                self.hint_hits += 1
        bps.sort()
        self.breakpoints += len(bps)
        edges = [0.0] + [x for x, _, _ in bps] + [1.0]
        out = []
        for lo, hi in zip(edges[:-1], edges[1:]):
            if hi - lo <= 4 * TOL * hi:
                continue
            out.append((lo, hi, 0.5 * (lo + hi), None))
        return out

    # ------------------------------------------------------------- tree
    def explore(self, base):
        try:
            leaves, retry = self._expand(list(base), [], 1.0, None, False)
        except RecursionError:
            raise Skip("draw tree too deep to enumerate")
        if retry:
            raise Skip("retry mass escaped the tree")
        return leaves

    def _expand(self, base, path, mass, anchor, from_uniform):
        """Returns (leaves, retry_mass): retry_mass is the mass that flowed
        back to the choice node ``anchor`` (rejection loop)."""
        self._nest += 1
        try:
            if self._nest > MAX_NEST:
                raise Skip("draw tree nested deeper than %d (unrecognised rejection loop?)" % MAX_NEST)
            return self._expand_inner(base, path, mass, anchor, from_uniform)
        finally:
            self._nest -= 1

    def _expand_inner(self, base, path, mass, anchor, from_uniform):
        if len(path) > MAX_DEPTH:
            # e.g. a rejection loop written with primitives the loop detector does not recognise
            # (index drawn through random() instead of choice()): not enumerable here, never a verdict
            raise Skip("draw tree deeper than %d draws in one step" % MAX_DEPTH)
        res = self._run(base + path)
        st = res.status
        if st in ("done", "exc", "after_end"):
            return [Leaf(mass, list(path), res, st)], 0.0
        kind, key = res.pending
        raw = res.sim.pending_raw
        if kind == "c":
            if anchor is not None and from_uniform and key == anchor[0] and \
                    self._same_state(base, path, anchor[1], res):
                self.loops += 1
                return [], mass
            n = len(raw)
            leaves, back = [], 0.0
            for i in range(n):
                lv, rt = self._expand(base, path + [("c", i)], mass / n, (key, tuple(base + path)), False)
                leaves.extend(lv)
                back += rt
            if back > 0.0:
                keep = mass - back
                if keep <= mass * 1e-12:
                    # every candidate is always rejected: the code would spin
                    return [Leaf(mass, list(path), res, "stuck")], 0.0
                scale = mass / keep
                for lf in leaves:
                    lf.mass *= scale
            return leaves, 0.0
        if kind == "r":
            leaves, back = [], 0.0
            saved = self._cur_anchor
            self._cur_anchor = anchor
            try:
                regions = self._regions(base + path)
            finally:
                self._cur_anchor = saved
            for lo, hi, rep, _ in regions:
                lv, rt = self._expand(base, path + [("r", rep)], mass * (hi - lo),
                                      anchor, True)
                leaves.extend(lv)
                back += rt
            return leaves, back
        if kind == "s":
            pop, k = raw
            n = len(pop)
            combos = list(itertools.combinations(range(n), k))
            if len(combos) > 64:
                raise Skip("sample space too large")
            leaves = []
            for c in combos:
                lv, rt = self._expand(base, path + [("s", tuple(c))],
                                      mass / len(combos), None, False)
                leaves.extend(lv)
            return leaves, 0.0
        if kind == "b":
            n, p = raw
            if n > 12:
                raise Skip("binomial too large")
            leaves = []
            for m in range(int(n) + 1):
                pm = math.comb(int(n), m) * (p ** m) * ((1 - p) ** (int(n) - m))
                if pm <= 0.0:
                    continue
                lv, rt = self._expand(base, path + [("b", m)], mass * pm, None, False)
                leaves.extend(lv)
            return leaves, 0.0
        raise Skip("cannot enumerate pending %r" % (res.pending,))


def close(a, b, rel=1e-9, abs_=1e-12):
    return abs(a - b) <= abs_ + rel * max(abs(a), abs(b))


def compare_laws(code, ref, tol=1e-8):
    """Both dict event -> probability.  Returns list of (event, p_code, p_ref)
    that differ by more than tol."""
    bad = []
    for e in set(code) | set(ref):
        pc, pr = code.get(e, 0.0), ref.get(e, 0.0)
        if abs(pc - pr) > tol:
            bad.append((e, pc, pr))
    bad.sort(key=lambda x: -abs(x[1] - x[2]))
    return bad
