"""Reference models.  Tiny, written from the property statements, no EoN import.

All models work on node *indices* 0..n-1 of a graph spec (cases.py); the
checks translate labels at the boundary.
"""
import heapq
import itertools
import math

INF = float("inf")


def adjacency(spec, weight=None):
    """adj[i] = list of (j, w) in insertion order; undirected specs give both
    directions; weight=None -> w = 1.0."""
    n = len(spec["nodes"])
    adj = [[] for _ in range(n)]
    for i, j, a in spec["edges"]:
        w = 1.0 if weight is None else a[weight]
        adj[i].append((j, w))
        if not spec["directed"] and i != j:     # a self-loop is one neighbour entry
            adj[j].append((i, w))
    return adj


# ------------------------------------------------------------------ CTMC
class CTMC(object):
    """Network SIR / SIS continuous-time Markov chain of C01 / C02.

    I-S edge (u,v) transmits at rate tau*w_uv; I node u recovers (SIR: to R,
    SIS: to S) at rate gamma*w_u."""

    def __init__(self, spec, tau, gamma, sis=False, edge_w=None, node_w=None):
        self.n = len(spec["nodes"])
        self.tau = float(tau)
        self.gamma = float(gamma)
        self.sis = sis
        self.adj = adjacency(spec, edge_w)
        self.nw = [1.0 if node_w is None else a[node_w] for a in spec["nattr"]]
        self.after_rec = "S" if sis else "R"

    def enabled(self, state):
        """{event: rate} with rate > 0; event = ('rec', u) | ('inf', u, v)."""
        ev = {}
        for u in range(self.n):
            if state[u] != "I":
                continue
            r = self.gamma * self.nw[u]
            if r > 0:
                ev[("rec", u)] = r
            for v, w in self.adj[u]:
                if state[v] == "S":
                    r = self.tau * w
                    if r > 0:
                        ev[("inf", u, v)] = ev.get(("inf", u, v), 0.0) + r
        return ev

    def apply(self, state, ev):
        s = list(state)
        if ev[0] == "rec":
            assert s[ev[1]] == "I"
            s[ev[1]] = self.after_rec
        else:
            assert s[ev[1]] == "I" and s[ev[2]] == "S"
            s[ev[2]] = "I"
        return tuple(s)

    # ---- exact laws on the full state space (n <= 6)
    def reachable(self, init):
        seen = {init: 0}
        order = [init]
        k = 0
        while k < len(order):
            s = order[k]
            k += 1
            for e in self.enabled(s):
                t = self.apply(s, e)
                if t not in seen:
                    seen[t] = len(order)
                    order.append(t)
        return order, seen

    def dist_at(self, init, T):
        """Law of the status vector at time T: row of expm(Q T)."""
        import numpy as np
        from scipy.linalg import expm
        order, index = self.reachable(init)
        m = len(order)
        Q = np.zeros((m, m))
        for s in order:
            i = index[s]
            for e, r in self.enabled(s).items():
                j = index[self.apply(s, e)]
                Q[i, j] += r
                Q[i, i] -= r
        P = expm(Q * T)
        row = P[0]
        return {order[j]: float(row[j]) for j in range(m) if row[j] > 0}

    def absorption(self, init):
        """Law of the final state (SIR, or SIS with an absorbing set) through
        the embedded jump chain; requires a finite number of events."""
        assert not self.sis
        dist = {init: 1.0}
        final = {}
        for _ in range(2 * self.n + 2):
            nxt = {}
            for s, p in dist.items():
                ev = self.enabled(s)
                tot = sum(ev.values())
                if tot <= 0:
                    final[s] = final.get(s, 0.0) + p
                    continue
                for e, r in ev.items():
                    t = self.apply(s, e)
                    nxt[t] = nxt.get(t, 0.0) + p * r / tot
            dist = nxt
            if not dist:
                break
        assert not dist
        return final


# ----------------------------------------------------- generic simple contagion
class SimpleContagion(object):
    """Reference interpreter for Gillespie_simple_contagion (C03).

    spont: list of (A, B, rate, wfun) ; wfun(i) -> node weight (or None -> 1)
    induced: list of ((A,B), (A,C), rate, wfun) ; wfun(i,j) -> edge weight
    The contact network is the spec (directed: pairs along edge direction)."""

    def __init__(self, spec, spont, induced):
        self.n = len(spec["nodes"])
        self.directed = spec["directed"]
        self.out = [[] for _ in range(self.n)]
        for i, j, a in spec["edges"]:
            self.out[i].append((j, a))
            if not self.directed:
                self.out[j].append((i, a))
        self.spont = spont
        self.induced = induced

    def enabled(self, state):
        ev = {}
        for (A, B, rate, wf) in self.spont:
            for u in range(self.n):
                if state[u] == A:
                    w = 1.0 if wf is None else wf(u)
                    r = rate * w
                    if r > 0:
                        k = ("sp", u, A, B)
                        ev[k] = ev.get(k, 0.0) + r
        for ((A, B), (A2, C), rate, wf) in self.induced:
            for u in range(self.n):
                if state[u] != A:
                    continue
                for v, attrs in self.out[u]:
                    if state[v] == B:
                        w = 1.0 if wf is None else wf(u, v, attrs)
                        r = rate * w
                        if r > 0:
                            k = ("ind", u, v, B, C)
                            ev[k] = ev.get(k, 0.0) + r
        return ev

    def apply(self, state, ev):
        s = list(state)
        if ev[0] == "sp":
            _, u, A, B = ev
            assert s[u] == A
            s[u] = B
        else:
            _, u, v, B, C = ev
            assert s[v] == B
            s[v] = C
        return tuple(s)


# ------------------------------------------------------ first passage (C11)
def first_passage(n, out_edges, duration, initial_inf, initial_rec, tmin):
    """Dijkstra on the directed graph that keeps u->v iff delay <= duration(u).

    out_edges[u] = list of (v, delay) for every neighbour v of u.
    Returns (inf_time, rec_time, preds): inf_time[v] (INF if never), rec_time,
    preds[v] = set of admissible infectors (None for initial nodes)."""
    removed = set(initial_rec)
    inf_time = [INF] * n
    preds = [set() for _ in range(n)]
    heap = []
    for u in initial_inf:
        if u in removed:
            continue
        inf_time[u] = tmin
        heap.append((tmin, u))
    heapq.heapify(heap)
    done = [False] * n
    while heap:
        t, u = heapq.heappop(heap)
        if done[u] or t > inf_time[u]:
            continue
        done[u] = True
        for v, d in out_edges[u]:
            if v in removed:
                continue
            if d <= duration[u]:
                tv = t + d
                if tv < inf_time[v]:
                    inf_time[v] = tv
                    heapq.heappush(heap, (tv, v))
    init = set(u for u in initial_inf if u not in removed)
    for u in range(n):
        if inf_time[u] == INF:
            continue
        for v, d in out_edges[u]:
            if v in removed or v in init:
                continue
            if d <= duration[u] and inf_time[u] + d == inf_time[v] and inf_time[v] < INF:
                preds[v].add(u)
    rec_time = [inf_time[u] + duration[u] if inf_time[u] < INF else INF for u in range(n)]
    return inf_time, rec_time, preds, init


# ------------------------------------------------------------ plain SIS (C13)
def plain_sis(n, nbrs, duration_fn, delays_fn, initial_inf, tmin, tmax, flags=None):
    """The naive reference of C13.

    duration_fn(u, k) -> duration of the k-th infection of u (k = 0, 1, ..)
    delays_fn(u, v, k) -> list of delays of the attempts u->v made during the
                          k-th infection of u
    A node infected at s recovers at s+duration, attempts each neighbour at
    s+delay, an attempt infects iff the target is susceptible at that instant.
    Event times are assumed distinct (the caller guarantees it).  Returns
    (events, histories): events = sorted [(t, 'inf', src, v) | (t, 'rec', v)]
    with t < tmax; histories[v] = ([times], [statuses])."""
    status = ["S"] * n
    count = [0] * n
    heap = []
    seq = itertools.count()
    events = []

    def infect(t, src, v):
        status[v] = "I"
        k = count[v]
        count[v] += 1
        events.append((t, "inf", src, v))
        d = duration_fn(v, k)
        heapq.heappush(heap, (t + d, next(seq), "rec", None, v))
        for w in nbrs[v]:
            for dl in delays_fn(v, w, k):
                heapq.heappush(heap, (t + dl, next(seq), "att", v, w))

    for u in initial_inf:
        if status[u] == "S":
            infect(tmin, None, u)
    last = None
    while heap:
        t, _, kind, src, v = heapq.heappop(heap)
        if not t < tmax:
            break
        if flags is not None and t > tmin and t == last:
            # two queued happenings (attempts and/or recoveries) at the very same instant after
            # tmin: the property quantifies over distinct event times only
            flags["coincident"] = True
        last = t
        if kind == "rec":
            status[v] = "S"
            events.append((t, "rec", v))
        else:
            if status[v] == "S":
                infect(t, src, v)
    events.sort(key=lambda e: e[0])
    hist = [([tmin], ["S"]) for _ in range(n)]
    for e in events:
        if e[1] == "inf":
            v = e[3]
            if e[0] == tmin and hist[v][0] == [tmin] and hist[v][1] == ["S"]:
                hist[v] = ([tmin], ["I"])
            else:
                hist[v][0].append(e[0]); hist[v][1].append("I")
        else:
            v = e[2]
            hist[v][0].append(e[0]); hist[v][1].append("S")
    return events, hist


# ---------------------------------------------------------------- histories
def canon_history(times, statuses):
    """A node history as a status function: entries with identical times are
    collapsed to the last one."""
    ct, cs = [], []
    for t, s in zip(times, statuses):
        if ct and ct[-1] == t:
            cs[-1] = s
        else:
            ct.append(t)
            cs.append(s)
    return ct, cs


def status_at(times, statuses, t):
    """Status of the latest change at or before t (t >= times[0])."""
    k = 0
    for i, x in enumerate(times):
        if x <= t:
            k = i
    return statuses[k]


def bfs_levels(n, out_ok, initial_inf, initial_rec):
    """Breadth-first distance in the directed graph of successful contacts.
    out_ok[u] = iterable of v such that the contact u->v succeeds."""
    removed = set(initial_rec)
    dist = [INF] * n
    frontier = [u for u in initial_inf if u not in removed]
    for u in frontier:
        dist[u] = 0
    d = 0
    while frontier:
        nxt = []
        for u in frontier:
            for v in out_ok[u]:
                if v in removed or dist[v] < INF:
                    continue
                dist[v] = d + 1
                nxt.append(v)
        frontier = nxt
        d += 1
    return dist
