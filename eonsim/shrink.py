"""Greedy minimisation of an explicit failing case (DESIGN.md section 6).

shrink_case(mod, viol) repeatedly proposes simpler variants of viol["case"]
(delete a node, delete an edge, drop an initial node, weights/rates -> 1,
labels -> small ints, shorter prefix script, fewer calls / transitions) and keeps
a variant iff mod.replay(variant) -- or, for walk findings, a fresh seeded walk
search on the variant (mod.research) -- still yields a violation of the SAME
class.  Bounded by a wall budget; the result is replayed once more by the
caller before it is written out.
"""
import copy
import time


def _same(mod, case, cls):
    try:
        vs = mod.replay(case) or []
    except Exception:
        return None
    for v in vs:
        if v.get("cls") == cls:
            return v
    if "prefix" in case and hasattr(mod, "research"):
        try:
            vs = mod.research(case) or []
        except Exception:
            return None
        for v in vs:
            if v.get("cls") == cls:
                return v
    return None


def _drop_node(case, k):
    g = case.get("graph")
    if not g or len(g["nodes"]) <= 1:
        return None
    c = copy.deepcopy(case)
    g = c["graph"]
    n = len(g["nodes"])
    remap = {i: (i if i < k else i - 1) for i in range(n) if i != k}
    g["nodes"].pop(k)
    g["nattr"].pop(k)
    g["edges"] = [[remap[i], remap[j], a] for i, j, a in g["edges"] if i != k and j != k]
    for key in ("I0", "R0"):
        if isinstance(c.get(key), list):
            c[key] = [remap[i] for i in c[key] if i != k]
    if isinstance(c.get("I0"), list) and not c["I0"] and c.get("rho") is None:
        return None
    if isinstance(c.get("IC"), list) and len(c["IC"]) == n:
        c["IC"].pop(k)
    for sub in ("simple", "complex"):
        if isinstance(c.get(sub), dict) and isinstance(c[sub].get("IC"), list) and len(c[sub]["IC"]) == n:
            c[sub]["IC"].pop(k)
    c.pop("prefix", None)
    c["prefix"] = [] if "prefix" in case else None
    if c["prefix"] is None:
        del c["prefix"]
    return c


def _variants(case):
    g = case.get("graph")
    if g:
        n = len(g["nodes"])
        for k in range(n - 1, -1, -1):
            v = _drop_node(case, k)
            if v is not None:
                yield "drop node %d" % k, v
        for e in range(len(g["edges"]) - 1, -1, -1):
            c = copy.deepcopy(case)
            c["graph"]["edges"].pop(e)
            if "prefix" in c:
                c["prefix"] = []
            yield "drop edge %d" % e, c
    for key in ("I0", "R0"):
        L = case.get(key)
        if isinstance(L, list) and len(L) > (1 if key == "I0" else 0):
            for k in range(len(L) - 1, -1, -1):
                c = copy.deepcopy(case)
                c[key].pop(k)
                if "prefix" in c:
                    c["prefix"] = []
                yield "drop %s[%d]" % (key, k), c
    if isinstance(case.get("prefix"), list) and case["prefix"]:
        # cut the script at an earlier clock draw
        cuts = [i for i, e in enumerate(case["prefix"]) if e[0] == "e"]
        for i in cuts:
            c = copy.deepcopy(case)
            c["prefix"] = c["prefix"][:i]
            yield "prefix[:%d]" % i, c
    for key in ("calls", "spont", "induced", "ops"):
        L = case.get(key)
        if isinstance(L, list) and len(L) > 1:
            for k in range(len(L) - 1, -1, -1):
                c = copy.deepcopy(case)
                c[key].pop(k)
                yield "drop %s[%d]" % (key, k), c
    if g:
        if any(a for _, _, a in g["edges"]) and not case.get("ew") and not case.get("simple") and case.get("sim") not in ("Gillespie_simple_contagion",):
            c = copy.deepcopy(case)
            for e in c["graph"]["edges"]:
                e[2] = {}
            yield "strip edge attrs", c
        for attr, flag in (("w", "ew"), ("nw", "nw")):
            if case.get(flag):
                c = copy.deepcopy(case)
                if attr == "w":
                    for e in c["graph"]["edges"]:
                        if "w" in e[2]:
                            e[2]["w"] = 1.0
                else:
                    for a in c["graph"]["nattr"]:
                        if "nw" in a:
                            a["nw"] = 1.0
                yield "%s -> 1" % attr, c
        if g.get("label") not in (None, "int"):
            c = copy.deepcopy(case)
            c["graph"]["nodes"] = list(range(len(g["nodes"])))
            c["graph"]["label"] = "int"
            yield "labels -> ints", c
    for key in ("tau", "gamma"):
        if case.get(key) not in (None, 1.0, 0.0):
            c = copy.deepcopy(case)
            c[key] = 1.0
            yield "%s -> 1" % key, c
    if case.get("tmin") not in (None, 0):
        c = copy.deepcopy(case)
        if isinstance(c.get("tmax"), (int, float)) and c["tmax"] not in (float("inf"),):
            c["tmax"] = c["tmax"] - c["tmin"]
        c["tmin"] = 0
        yield "tmin -> 0", c
    sm = case.get("seam")
    if isinstance(sm, dict) and sm.get("mode") == "buggify":
        c = copy.deepcopy(case)
        c["seam"] = dict(sm, mode="seeded", bug_rate=0.0, grid=None)
        yield "buggify off", c


def _strip(case):
    return {k: v for k, v in case.items() if k not in ("prefix",)} if not case.get("prefix") else case


def shrink_case(mod, viol, budget_s=60.0):
    case = viol.get("case")
    cls = viol.get("cls")
    if not isinstance(case, dict) or cls is None or not hasattr(mod, "replay"):
        return viol
    t0 = time.time()
    if _same(mod, case, cls) is None:
        return viol            # not replayable as it stands: report unminimised
    best = viol
    steps = []
    progress = True
    while progress and time.time() - t0 < budget_s:
        progress = False
        for what, cand in _variants(best["case"]):
            if time.time() - t0 > budget_s:
                break
            if what.startswith("prefix") and any(x.startswith("prefix") for x in steps):
                continue        # a re-searched walk brings its own prefix: cut only once
            if _strip(cand) == _strip(best["case"]):
                continue        # not a change
            v = _same(mod, cand, cls)
            if v is not None:
                v = dict(v)
                if v.get("case") is None:
                    v["case"] = cand
                v["key"] = viol.get("key") if v.get("key") is None else v["key"]
                best = v
                steps.append(what)
                progress = True
                break
    if steps:
        best = dict(best)
        best["msg"] = "%s  [minimised: %s]" % (best.get("msg"), "; ".join(steps[:12]))
        best["minimised_from"] = {"nodes": len((case.get("graph") or {}).get("nodes", [])),
                                  "edges": len((case.get("graph") or {}).get("edges", [])),
                                  "prefix": len(case.get("prefix") or [])}
    return best
