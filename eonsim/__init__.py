"""eonsim - deterministic simulation harness for EoN (see /verif/DESIGN.md)."""
import os
import sys
import warnings

REPO = os.environ.get("EON_VERIF_REPO", "/repo")
VERIF = os.path.dirname(os.path.dirname(os.path.abspath(__file__)))


def load_eon():
    """Import EoN from the working tree named by EON_VERIF_REPO (default /repo).

    The import is done once per process; forked workers inherit it.  The
    function fails loudly (harness error, never a verdict) when the module that
    got imported is not the one under REPO.
    """
    os.environ.setdefault("MPLBACKEND", "Agg")
    sys.dont_write_bytecode = True
    if sys.path[0] != REPO:
        sys.path.insert(0, REPO)
    warnings.filterwarnings("ignore", category=SyntaxWarning)
    warnings.filterwarnings("ignore", category=DeprecationWarning)
    import EoN  # noqa
    here = os.path.realpath(os.path.dirname(EoN.__file__))
    want = os.path.realpath(os.path.join(REPO, "EoN"))
    if here != want:
        raise RuntimeError("EoN imported from %s, expected %s" % (here, want))
    return EoN
