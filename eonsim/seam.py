"""The seam: every source of randomness EoN.simulation reaches is owned here.

EoN.simulation draws through two module globals, ``random`` (the stdlib
module) and ``np`` (``np.random.binomial``).  ``installed(sim)`` replaces both
for the duration of one run and restores them afterwards.  No change to /repo.

Modes of SimRandom
  seeded    values from a private random.Random(seed); every call is logged
  scripted  values come from a list; when it is exhausted the pending request
            is recorded and ScriptExhausted aborts the run (the run is "paused
            at a choice point"; exploration is by re-execution)
  buggify   seeded, but a per-run random subset of call sites returns legal
            extreme values (see DESIGN.md section 4, F1)

Script entries are (kind, answer):
  ('r', u)        random()      -> u in [0,1)
  ('e', x)        expovariate(l)-> x / l      (x is the unit-rate variate)
  ('c', i)        choice(seq)   -> seq[i]
  ('s', idxs)     sample(p, k)  -> [p[i] for i in idxs]
  ('b', m)        np.random.binomial(n, p) -> m
"""
import hashlib
import random as _random
import signal
import sys
import time
import zlib
from collections.abc import Sequence as _Sequence
from contextlib import contextmanager

INF = float("inf")
ONE_MINUS = 1.0 - 2.0 ** -53
# buggify's upper extreme for a uniform: a legal value that is met with
# non-negligible probability (2^-20 per draw), unlike 1-2^-53 whose only effect
# is to expose rounding in cumulative scans with probability ~1e-16
HIGH_U = 1.0 - 2.0 ** -20

SEEDED, SCRIPTED, BUGGIFY = "seeded", "scripted", "buggify"


class ScriptExhausted(BaseException):
    """Raised through the code under test when a scripted run needs a value
    the script does not have.  BaseException so no ``except Exception`` in the
    code under test can swallow it."""


class ScriptMismatch(BaseException):
    """The code asked for another kind of draw than the script recorded at
    this position: the code under test is not a deterministic function of its
    draws (harness-level condition, reported apart from property verdicts)."""


class DrawAfterEnd(BaseException):
    """A draw was requested after the clock had been answered with +inf."""


class Runaway(BaseException):
    """A single simulator call exceeded RUN_GUARD_S of CPU time under the seam
    (e.g. the scripted clock never reached the code because it draws
    elsewhere, so the simulated epidemic never ends)."""


GUARD = [False]
RUN_GUARD_S = 30.0


class UnsupportedDraw(BaseException):
    """A random primitive the scripted mode cannot enumerate."""


def akey(x):
    """Stable, hash-seed independent key of a draw's arguments."""
    if x is None or isinstance(x, (int, float, str, bool)):
        return repr(x)
    if isinstance(x, (list, tuple)):
        return "(" + ",".join(akey(y) for y in x) + ")"
    try:
        import numpy as _np
        if isinstance(x, _np.generic):
            return repr(x.item())
    except Exception:
        pass
    if isinstance(x, (set, frozenset)):
        return "{" + ",".join(sorted(akey(y) for y in x)) + "}"
    return repr(x)


class SimRandom(_random.Random):
    """Stand-in for the ``random`` module as seen by EoN.simulation."""

    def __new__(cls, *a, **k):
        return super().__new__(cls)

    def __init__(self, mode=SEEDED, seed=0, script=None, end_on_clock=False,
                 bug_sites=None, bug_rate=0.0, grid=None, record_args=True):
        self.mode = mode
        self.inner = _random.Random(seed)
        # buggify decisions come from their own stream so that switching
        # buggify on does not shift the seeded values of untouched sites
        self.bugrng = _random.Random((seed * 1000003 + 17) & 0xFFFFFFFFFFFF)
        self.script = list(script) if script is not None else []
        self.pos = 0
        self.end_on_clock = end_on_clock
        self.ended = False
        self.next_clock = None
        self.pending = None
        self.pending_raw = None
        self.log = []
        self.record_args = record_args
        self.bug_sites = bug_sites  # None = every site eligible
        self.bug_rate = bug_rate
        self.grid = grid            # round exponentials up to multiples of grid
        self.fired = {}             # fault kind -> count (only when it fired)
        self.sites_seen = set()
        self._site_active = {}
        self.last_e = None
        self.n_draws = 0
        super().__init__(0)

    # --- random.Random plumbing: every derived method funnels into these two
    def seed(self, *a, **k):
        # EoN never seeds; the harness owns the stream.  Accept and ignore.
        return None

    def getstate(self):
        return ("SimRandom", self.pos, len(self.log))

    def setstate(self, st):
        return None

    def getrandbits(self, k):
        if self.mode == SCRIPTED:
            raise UnsupportedDraw("getrandbits(%d)" % k)
        v = self.inner.getrandbits(k)
        self._log("g", k, v)
        return v

    def _randbelow(self, n):
        """randrange / randint / shuffle / choices(k) funnel here: an integer
        uniform on range(n) is a choice over range(n)."""
        if self.mode == SCRIPTED:
            if n <= 0:
                raise ValueError("empty range")
            return self._next("c", range(n))
        v = self.inner._randbelow(n)
        self._log("c", "range(%d)" % n, v)
        return v

    # --- helpers
    def _log(self, kind, args, value):
        self.n_draws += 1
        if self.record_args:
            self.log.append((kind, akey(args), value))
        else:
            self.log.append((kind, value))

    def _fire(self, what):
        self.fired[what] = self.fired.get(what, 0) + 1

    def _next(self, kind, args):
        if self.ended:
            self.pending = (kind, akey(args))
            raise DrawAfterEnd(repr(self.pending))
        if self.pos < len(self.script):
            ent = self.script[self.pos]
            if ent[0] != kind:
                raise ScriptMismatch("script[%d]=%r but code asked %s(%s)" %
                                     (self.pos, ent, kind, akey(args)))
            self.pos += 1
            self._log(kind, args, ent[1])
            return ent[1]
        if kind == "e" and self.end_on_clock:
            self.ended = True
            self.next_clock = args
            return INF
        self.pending = (kind, akey(args))
        self.pending_raw = args
        raise ScriptExhausted(repr(self.pending))

    def _site(self, kind, depth=2):
        f = sys._getframe(depth)
        s = (kind, f.f_code.co_name, f.f_lineno)
        self.sites_seen.add(s)
        return s

    def _bug(self, site):
        if self.bug_rate <= 0.0:
            return False
        if self.bug_sites is not None:
            # bug_sites = (fraction, salt): membership of a call site in this
            # run's buggified subset is a keyed hash, decided lazily and
            # deterministically (no PRNG draw, independent of visiting order)
            act = self._site_active.get(site)
            if act is None:
                frac, salt = self.bug_sites
                h = zlib.crc32(("%r|%r" % (salt, site)).encode()) / 4294967296.0
                act = self._site_active[site] = (h < frac)
            if not act:
                return False
        return self.bugrng.random() < self.bug_rate

    # --- the four primitives EoN uses today, intercepted with arguments
    def random(self):
        if self.mode == SCRIPTED:
            return self._next("r", None)
        v = self.inner.random()
        if self.mode == BUGGIFY and self._bug(self._site("r")):
            v = 0.0 if self.bugrng.random() < 0.5 else HIGH_U
            self._fire("uniform_extreme")
        self._log("r", None, v)
        return v

    def expovariate(self, lambd=1.0):
        if self.mode == SCRIPTED:
            if lambd == 0:
                raise ZeroDivisionError("float division by zero")
            x = self._next("e", lambd)
            return x / lambd
        v = self.inner.expovariate(lambd)
        if self.mode == BUGGIFY:
            if self.grid:
                # timer granularity: round up to a multiple of grid (legal
                # values, produces exact ties in event queues)
                q = (int(v / self.grid) + 1) * self.grid
                if q != v:
                    v = q
                    self._fire("exp_grid")
            if self._bug(self._site("e")):
                c = self.bugrng.random()
                if c < 0.4:
                    v = 0.0
                    self._fire("exp_zero")
                elif c < 0.8 and self.last_e is not None:
                    v = self.last_e
                    self._fire("exp_repeat")
                else:
                    v = v * 1e6
                    self._fire("exp_huge")
        self.last_e = v
        self._log("e", lambd, v)
        return v

    def choice(self, seq):
        if self.mode == SCRIPTED:
            n = len(seq)
            if not n:
                raise IndexError("Cannot choose from an empty sequence")
            seq[0]  # sets raise TypeError exactly as random.choice does
            i = self._next("c", seq)
            return seq[i]
        if self.mode == BUGGIFY and len(seq) and self._bug(self._site("c")):
            i = 0 if self.bugrng.random() < 0.5 else len(seq) - 1
            self.inner.random()
            self._fire("choice_end")
            self._log("c", seq, i)
            return seq[i]
        n = len(seq)
        if not n:
            raise IndexError("Cannot choose from an empty sequence")
        i = self.inner.randrange(n)
        v = seq[i]
        self._log("c", seq, i)
        return v

    def sample(self, population, k, *, counts=None):
        if counts is not None:
            raise UnsupportedDraw("sample(counts=...)")
        if not isinstance(population, _Sequence):
            raise TypeError("Population must be a sequence.  "
                            "For dicts or sets, use sorted(d).")
        n = len(population)
        if not 0 <= k <= n:
            raise ValueError("Sample larger than population or is negative")
        if self.mode == SCRIPTED:
            idxs = self._next("s", (population, k))
            return [population[i] for i in idxs]
        idxs = self.inner.sample(range(n), k)
        self._log("s", (population, k), tuple(idxs))
        return [population[i] for i in idxs]

    # --- results
    def digest(self):
        h = hashlib.sha256()
        for ent in self.log:
            h.update(repr(ent).encode())
        return h.hexdigest()[:16]


class _NpRandomProxy(object):
    """np.random as seen by EoN.simulation: binomial is intercepted, anything
    else is served by a RandomState seeded from the run (seeded/buggify) or
    refused (scripted)."""

    def __init__(self, sim, real):
        self._sim = sim
        self._real = real
        self._rs = None

    def _state(self):
        if self._rs is None:
            self._rs = self._real.RandomState(self._sim.inner.getrandbits(31))
        return self._rs

    def binomial(self, n, p, size=None):
        sim = self._sim
        if size is not None:
            if sim.mode == SCRIPTED:
                raise UnsupportedDraw("binomial(size=...)")
            return self._state().binomial(n, p, size)
        if sim.mode == SCRIPTED:
            if n < 0 or not (0 <= p <= 1):
                raise ValueError("binomial arguments out of range")
            return sim._next("b", (n, p))
        v = int(self._state().binomial(n, p))
        if sim.mode == BUGGIFY and n > 0 and 0 < p < 1 and \
                sim._bug(sim._site("b")):
            v = 0 if sim.bugrng.random() < 0.5 else int(n)
            sim._fire("binomial_extreme")
        sim._log("b", (int(n), float(p)), v)
        return v

    def seed(self, *a, **k):
        return None

    def __getattr__(self, name):
        if self._sim.mode == SCRIPTED:
            raise UnsupportedDraw("np.random.%s" % name)
        return getattr(self._state(), name)


class NpProxy(object):
    def __init__(self, real, sim):
        object.__setattr__(self, "_real", real)
        object.__setattr__(self, "random", _NpRandomProxy(sim, real.random))

    def __getattr__(self, name):
        return getattr(self._real, name)


class RealSim(object):
    """Sentinel seam: leave EoN.simulation's random / np untouched (the real
    global generators are used; the caller seeds them)."""
    mode = "real"

    def __init__(self):
        self.fired = {}
        self.log = []
        self.next_clock = None
        self.pending = None
        self.pending_raw = None

    def digest(self):
        return ""


@contextmanager
def installed(sim):
    """Route EoN.simulation's randomness through ``sim`` for one run."""
    if isinstance(sim, RealSim):
        yield sim
        return
    import EoN.simulation as S
    old_r, old_np = S.random, S.np
    S.random = sim
    S.np = NpProxy(old_np, sim)
    try:
        yield sim
    finally:
        S.random = old_r
        S.np = old_np


class _Null(object):
    def write(self, *a):
        return 0

    def flush(self):
        return None


_DEVNULL = _Null()


BYPASSED = [0]


def _np_state():
    try:
        import numpy as _np
        st = _np.random.get_state()
        return (st[2], st[3], st[4], int(st[1][0]), int(st[1][-1]))
    except Exception:
        return None


class RunResult(object):
    __slots__ = ("status", "value", "exc", "pending", "next_clock", "log",
                 "sim")

    def __init__(self):
        self.status = None      # done | pending | exc | after_end | unsupported | mismatch
        self.value = None
        self.exc = None
        self.pending = None
        self.next_clock = None
        self.log = None
        self.sim = None

    def __repr__(self):
        return "RunResult(%s, pending=%r, exc=%r)" % (self.status, self.pending,
                                                      self.exc)


# CPU seconds this process has spent in simulator calls that were cut off by the runaway guard
RUNAWAY_SPENT = [0.0]


def run_under(sim, fn, *args, **kwargs):
    """Run fn(*args, **kwargs) with the seam installed; classify the outcome."""
    res = RunResult()
    res.sim = sim
    old_out = sys.stdout
    sys.stdout = _DEVNULL       # the code under test prints notes/warnings
    real = isinstance(sim, RealSim)
    if not real:
        # seam-bypass detector: if the code under test reaches the real global
        # generators (e.g. after a refactor to `from random import random`),
        # the run is not under the harness's control and must not be judged
        g0 = _random.getstate()
        n0 = _np_state()
    guard = False
    try:
        # (also for runs under the real generators - C18's repeat families: a call that does not
        # return is "runaway" there too instead of eating the whole run's CPU limit)
        guard = callable(signal.getsignal(signal.SIGVTALRM))
    except Exception:
        guard = False
    if guard:
        rem = signal.getitimer(signal.ITIMER_VIRTUAL)[0]
        c0 = time.process_time()
        signal.setitimer(signal.ITIMER_VIRTUAL, min(RUN_GUARD_S, rem) if rem > 0 else RUN_GUARD_S)
        GUARD[0] = True
    try:
        with installed(sim):
            res.value = fn(*args, **kwargs)
        res.status = "done"
    except Runaway:
        res.status = "runaway"
        RUNAWAY_SPENT[0] += RUN_GUARD_S
    except ScriptExhausted:
        res.status = "pending"
        res.pending = sim.pending
    except DrawAfterEnd:
        res.status = "after_end"
        res.pending = sim.pending
    except UnsupportedDraw as e:
        res.status = "unsupported"
        res.exc = e
    except ScriptMismatch as e:
        res.status = "mismatch"
        res.exc = e
    except (KeyboardInterrupt, SystemExit):
        raise
    except Exception as e:  # the code under test raised
        res.status = "exc"
        res.exc = e
    finally:
        sys.stdout = old_out
        if guard:
            GUARD[0] = False
            used = time.process_time() - c0
            signal.setitimer(signal.ITIMER_VIRTUAL, max(0.05, rem - used) if rem > 0 else 0)
    if not real and res.status in ("done", "exc", "runaway") and (_random.getstate() != g0 or _np_state() != n0):
        res.status = "bypassed"
        BYPASSED[0] += 1
    res.next_clock = sim.next_clock
    res.log = sim.log
    return res
