"""E6 - fresh-interpreter runner.  Reads a JSON list of cases on stdin, runs
each with the REAL generators seeded (random.seed(s); numpy.random.seed(s)),
prints one JSON list of output digests.  The parent compares the lists of
children started with different PYTHONHASHSEED values."""
import hashlib
import json
import random
import sys


def output_digest(case, value, full, labels):
    import numpy as np
    if value is None:
        return "none"
    if full:
        hs = []
        for x in labels:
            ts, ss = value.node_history(x)
            hs.append(([float(a) for a in ts], [repr(s) for s in ss]))
        try:
            tr = [(float(t), repr(u), repr(v)) for (t, u, v) in value.transmissions()]
        except Exception:
            tr = None
        body = repr((hs, tr))
    else:
        body = repr([np.asarray(a).tolist() for a in value])
    return hashlib.sha256(body.encode()).hexdigest()[:20]


ENTROPY_CALLS = [0]


def run_real(case, full, seed):
    """One call with the real generators.  Returns (digest, state digests).
    While the simulator runs, the OS entropy source is tripwired: any call to
    os.urandom (random.SystemRandom, secrets, numpy.random.default_rng() and
    SeedSequence() all end there) is counted in ENTROPY_CALLS[0]."""
    import os
    import numpy as np
    from . import simcases
    from .seam import RealSim
    random.seed(seed)
    np.random.seed(seed % (2 ** 32))
    real_u, real_ru = os.urandom, random._urandom

    def trip(n):
        ENTROPY_CALLS[0] += 1
        return real_u(n)
    os.urandom = trip
    random._urandom = trip
    try:
        res, G, labels, _ = simcases.call(case, full, sim=RealSim())
    finally:
        os.urandom = real_u
        random._urandom = real_ru
    st = hashlib.sha256(repr(random.getstate()).encode()).hexdigest()[:12] + \
        hashlib.sha256(repr([x.tolist() if hasattr(x, "tolist") else x for x in np.random.get_state()]).encode()).hexdigest()[:12]
    if res.status == "exc":
        return "exc:%s:%s" % (type(res.exc).__name__, res.exc), st
    return output_digest(case, res.value, full, labels), st


def main():
    from . import load_eon
    load_eon()
    jobs = json.load(sys.stdin)
    out = []
    for job in jobs:
        d, st = run_real(job["case"], job["full"], job["seed"])
        out.append([d, st])
    sys.stdout.write(json.dumps(out))


if __name__ == "__main__":
    main()
