"""Adapters: one simulator call for one explicit case, under the scripted seam."""
import hashlib
import json

from . import cases, walks, load_eon
from .refmodels import CTMC
from .seam import SCRIPTED, SimRandom, run_under

EoN = load_eon()


def case_digest(case):
    return hashlib.sha256(json.dumps({k: v for k, v in case.items() if k != "prefix"},
                                     sort_keys=True, default=repr).encode()).hexdigest()[:12]


class MarkovAdapter(object):
    """Gillespie_SIR / Gillespie_SIS (case["sim"])."""

    def __init__(self, case):
        self.case = case
        self.name = case["sim"]
        self.sis = self.name.endswith("SIS")
        self.G, self.labels = cases.build_graph(case["graph"])
        self.n = len(self.labels)
        self.ew = "w" if case.get("ew") else None
        self.nw = "nw" if case.get("nw") else None
        self.ref = CTMC(case["graph"], case["tau"], case["gamma"], sis=self.sis,
                        edge_w=self.ew, node_w=self.nw)
        st = ["S"] * self.n
        for i in case["I0"]:
            st[i] = "I"
        for i in case["R0"]:
            st[i] = "R"
        self.init_state = tuple(st)
        self.trans_ok = True
        self.case_digest = case_digest(case)
        tmax = case.get("tmax")
        finite = (tmax is not None and tmax < 1e8) or (tmax is None and self.sis)
        # unit-rate clock answer; small when the horizon is finite so that a
        # walk of a few dozen events stays below tmax
        self.clock = 2.0 ** -20 if finite else 1.0

    def run(self, script, full=True):
        c = self.case
        sim = SimRandom(SCRIPTED, script=script, end_on_clock=True)
        kw = dict(initial_infecteds=[self.labels[i] for i in c["I0"]],
                  tmin=c["tmin"], return_full_data=full,
                  transmission_weight=self.ew, recovery_weight=self.nw)
        if not self.sis and (c["R0"] or c.get("R0_given")):
            kw["initial_recovereds"] = [self.labels[i] for i in c["R0"]]
        if c.get("tmax") is not None:
            kw["tmax"] = c["tmax"]
        return run_under(sim, getattr(EoN, self.name), self.G, c["tau"], c["gamma"], **kw)

    def decode(self, res):
        ev, final, first, tok = walks.decode_investigation(res.value, self.labels)
        self.trans_ok = tok
        return [(e[1], e[2], e[3]) for e in ev], final

    def sig_of(self, res):
        if res.status == "exc":
            return ("exc", type(res.exc).__name__)
        if res.status != "done":
            return (res.status,)
        ev, final = self.decode(res)
        return (tuple(ev[-1:]), final)

    def code_key(self, ev, state):
        i, s, src = ev
        if s == "I":
            return ("inf", src, i)
        return ("rec", i, s)

    def project(self, rk):
        if rk[0] == "inf":
            return ("inf", rk[1] if self.trans_ok else "?", rk[2])
        return ("rec", rk[1], self.ref.after_rec)

    def hints(self, state):
        ev = self.ref.enabled(state)
        tot = sum(ev.values())
        h = set()
        if tot > 0:
            h.add(sum(r for k, r in ev.items() if k[0] == "rec") / tot)
        for kind in ("rec", "inf"):
            ws = [r for k, r in ev.items() if k[0] == kind]
            if ws:
                m = max(ws)
                for w in ws:
                    h.add(w / m)
        # stale maxima: ratios against every weight in the graph
        if self.ew:
            allw = sorted({a["w"] for _, _, a in self.case["graph"]["edges"]})
            for w in allw:
                for m in allw:
                    if m > 0 and w < m:
                        h.add(w / m)
        if self.nw:
            allw = sorted({a["nw"] for a in self.case["graph"]["nattr"]})
            for w in allw:
                for m in allw:
                    if m > 0 and w < m:
                        h.add(w / m)
        return h


