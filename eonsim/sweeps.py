"""Shared sweep runner for the E2 checks (C04, C09, C10)."""
from . import history, simcases
from .walks import V


def crash_violation(case, res, mode):
    e = res.exc
    return V("crash", "%s/exception/%s" % (case["sim"], type(e).__name__),
             "%s mode raised %s: %s" % (mode, type(e).__name__, e), case)


def is_harness_limit(res):
    return res.status in ("unsupported", "mismatch", "pending", "after_end", "bypassed", "runaway")


def fired_stats(res, stats):
    for k, v in (res.sim.fired or {}).items():
        stats["fault_F1_%s" % k] = stats.get("fault_F1_%s" % k, 0) + v


def args_violation(case, tables):
    """The extra positional arguments (trans_time_args, rec_time_args,
    trans_and_rec_time_args, args) must reach the user's functions unchanged."""
    if tables is None or not getattr(tables, "bad_args", None):
        return []
    which, got, want = tables.bad_args[0]
    return [V("callback_args", "%s/extra-arguments-not-forwarded" % case["sim"],
              "the user's %s function received extra arguments %r, the caller passed %r (%d such calls)"
              % (which, got, want, len(tables.bad_args)), case)]
