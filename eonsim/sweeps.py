"""Shared sweep runner for the E2 checks (C04, C09, C10)."""
from . import history, simcases
from .walks import V


def crash_violation(case, res, mode):
    e = res.exc
    return V("crash", "%s/exception/%s" % (case["sim"], type(e).__name__),
             "%s mode raised %s: %s" % (mode, type(e).__name__, e), case)


def is_harness_limit(res):
    return res.status in ("unsupported", "mismatch", "pending", "after_end", "bypassed", "runaway")


def fired_stats(res, stats):
    for k, v in (res.sim.fired or {}).items():
        stats["fault_F1_%s" % k] = stats.get("fault_F1_%s" % k, 0) + v
