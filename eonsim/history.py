"""E2 - history oracles: pure functions  (case, observed output) -> violations.

Every oracle returns a list of (cls, key_suffix, message).
"""
import math

from . import contagion
from .refmodels import canon_history, status_at
from .simcases import SIMS, legal_moves, status_names

INF = float("inf")


def arrays_of(case, value):
    """Normalise an arrays-mode return value -> (t, {status: [ints]}, names)
    or raises ValueError."""
    names = status_names(case)
    vals = list(value)
    if len(vals) != len(names) + 1:
        raise ValueError("expected %d arrays, got %d" % (len(names) + 1, len(vals)))
    t = [float(x) for x in vals[0]]
    cols = {}
    for nm, arr in zip(names, vals[1:]):
        col = []
        for x in arr:
            xi = int(x)
            if xi != x:
                raise ValueError("non-integer count %r" % (x,))
            col.append(xi)
        cols[nm] = col
    return t, cols, names


def effective_tmax(case):
    if case.get("tmax") is not None:
        return case["tmax"]
    return 100 if SIMS[case["sim"]][3] else INF


def wellformed(case, value, n_nodes):
    """C04 on an arrays-mode output."""
    out = []
    name = case["sim"]
    time, model, _, _ = SIMS[name]
    try:
        t, cols, names = arrays_of(case, value)
    except Exception as e:
        return [("shape", "shape", "arrays mode returned something else than equally typed arrays: %s" % e)]
    L = len(t)
    for nm in names:
        if len(cols[nm]) != L:
            return [("shape", "unequal-lengths", "len(t)=%d but len(%s)=%d" % (L, nm, len(cols[nm])))]
    if L == 0:
        return [("shape", "empty", "empty output")]
    tmin, tmax = case["tmin"], effective_tmax(case)
    if t[0] != tmin:
        out.append(("time", "first-time", "first time %r != tmin %r" % (t[0], tmin)))
    for a, b in zip(t[:-1], t[1:]):
        if not b >= a:
            out.append(("time", "decreasing-time", "times decrease: %r then %r" % (a, b)))
            break
    if time == "cont":
        late = [x for x in t[1:] if not x < tmax]
        if late:
            out.append(("time", "reaches-tmax", "time %r is not below tmax %r" % (late[0], tmax)))
    else:
        whole = (tmax == INF) or float(tmax - tmin).is_integer()
        if whole:
            late = [x for x in t[1:] if x > tmax]
            if late:
                out.append(("time", "exceeds-tmax", "discrete time %r exceeds tmax %r" % (late[0], tmax)))
        for a, b in zip(t[:-1], t[1:]):
            if b != a + 1:
                out.append(("time", "step-not-one", "discrete times %r -> %r" % (a, b)))
                break
    covers_all = True
    if model == "generic":
        allst = None
        if name == "Gillespie_simple_contagion":
            allst = [contagion.dec_status(s) for s in case["statuses"]]
        elif name == "Gillespie_complex_contagion":
            allst = contagion.make_complex_model(case["model"], case["params"])[3]
        covers_all = allst is not None and set(allst) <= set(names)
    for k in range(L):
        row = [cols[nm][k] for nm in names]
        if min(row) < 0:
            out.append(("counts", "negative-count", "row %d has a negative count: %r" % (k, dict(zip(map(str, names), row)))))
            break
        if covers_all and sum(row) != n_nodes:
            out.append(("counts", "not-conserved", "row %d (t=%r) sums to %d, N=%d: %r"
                        % (k, t[k], sum(row), n_nodes, dict(zip(map(str, names), row)))))
            break
    moves = legal_moves(case)
    if time == "cont":
        for k in range(1, L):
            diff = {nm: cols[nm][k] - cols[nm][k - 1] for nm in names}
            plus = [nm for nm in names if diff[nm] == 1]
            minus = [nm for nm in names if diff[nm] == -1]
            other = [nm for nm in names if diff[nm] not in (0, 1, -1)]
            ok = not other and len(plus) <= 1 and len(minus) <= 1
            if ok and covers_all:
                ok = len(plus) == 1 and len(minus) == 1
                if ok and moves is not None and (minus[0], plus[0]) not in moves:
                    ok = False
            if not ok:
                out.append(("step", "not-one-legal-move", "rows %d->%d (t=%r) change by %r"
                            % (k - 1, k, t[k], {str(a): b for a, b in diff.items() if b})))
                break
    if model == "SIR":
        S, R = cols["S"], cols["R"]
        if any(b > a for a, b in zip(S[:-1], S[1:])):
            out.append(("monotone", "S-increases", "S increases: %r" % (S,)))
        if any(b < a for a, b in zip(R[:-1], R[1:])):
            out.append(("monotone", "R-decreases", "R decreases: %r" % (R,)))
    return out


def ends_extinct(case, value):
    """Unbounded horizon and positive recovery rate => the run ends with I=0."""
    name = case["sim"]
    time, model, _, _ = SIMS[name]
    if model != "SIR" or effective_tmax(case) != INF:
        return []
    if name in ("fast_SIR", "Gillespie_SIR"):
        if not case["gamma"] > 0:
            return []
        if case.get("nw") and any(a.get("nw", 1) <= 0 for a in case["graph"]["nattr"]):
            return []
    if name == "fast_nonMarkov_SIR":
        return []   # durations may be infinite by table
    if name == "discrete_SIR" and case.get("recovery_rule"):
        return []
    try:
        t, cols, names = arrays_of(case, value)
    except Exception:
        return []
    if cols["I"][-1] != 0:
        return [("liveness", "ends-with-infected", "unbounded horizon, positive recovery rate, but the run "
                 "ends with I=%d at t=%r" % (cols["I"][-1], t[-1]))]
    return []


# ---------------------------------------------------------------- full data
def node_histories(inv, labels):
    return [tuple(list(x) for x in inv.node_history(lab)) for lab in labels]


def history_wellformed(case, inv, labels):
    """Each node history starts at tmin, is time-ordered, only legal moves."""
    out = []
    moves = legal_moves(case)
    tmin = case["tmin"]
    for lab in labels:
        times, sts = inv.node_history(lab)
        if len(times) != len(sts) or not len(times):
            out.append(("history", "history-shape", "node %r history %r / %r" % (lab, times, sts)))
            break
        if times[0] != tmin:
            out.append(("history", "history-start", "node %r history starts at %r, tmin=%r: %r / %r"
                        % (lab, times[0], tmin, list(times), list(sts))))
            break
        if any(b < a for a, b in zip(times[:-1], times[1:])):
            out.append(("history", "history-unordered", "node %r history times %r" % (lab, list(times))))
            break
        if moves is not None:
            # raw consecutive entries must be legal moves (ties included)
            bad = [(a, b) for a, b in zip(sts[:-1], sts[1:]) if (a, b) not in moves]
            if bad:
                out.append(("history", "history-illegal-move", "node %r makes move %r: %r / %r"
                            % (lab, bad[0], list(times), list(sts))))
                break
    return out


def summary_from_histories(hists, names, subset=None):
    """(t, {status: counts}) recomputed from raw histories: at each distinct
    time, every node has the status of its latest change at or before it."""
    times = sorted({t for (ts, ss) in hists for t in ts})
    cols = {nm: [] for nm in names}
    for t in times:
        cnt = {nm: 0 for nm in names}
        for (ts, ss) in hists:
            s = status_at(ts, ss, t)
            if s in cnt:
                cnt[s] += 1
        for nm in names:
            cols[nm].append(cnt[nm])
    return times, cols


def collapse_rows(t, cols, names):
    """Rows at identical times collapsed to the last one."""
    ot, oc = [], {nm: [] for nm in names}
    for k in range(len(t)):
        if ot and ot[-1] == t[k]:
            for nm in names:
                oc[nm][-1] = cols[nm][k]
        else:
            ot.append(t[k])
            for nm in names:
                oc[nm].append(cols[nm][k])
    return ot, oc


def two_views(case, arrays_value, inv, labels, rng):
    """C10: arrays (same draws) vs the Simulation_Investigation."""
    out = []
    try:
        t, cols, names = arrays_of(case, arrays_value)
    except Exception as e:
        return [("shape", "shape", "arrays mode: %s" % e)]
    out.extend(history_wellformed(case, inv, labels))
    if out:
        return out
    hists = node_histories(inv, labels)
    try:
        st, sd = inv.summary()
        st = [float(x) for x in st]
        sd = {k: [int(x) for x in v] for k, v in sd.items()}
    except Exception as e:
        return [("summary", "summary-raises", "summary() raised %s: %s" % (type(e).__name__, e))]
    at, ac = collapse_rows(t, cols, names)
    # compared as step functions of time (value of the last row at or before
    # each instant), on the union of both time grids: the discrete-time arrays
    # have a row per step, summary() a row per change
    def step(times, colmap, q):
        k = 0
        for i, x in enumerate(times):
            if x <= q:
                k = i
        return tuple(colmap[nm][k] for nm in names)
    if not st or not at or st[0] != at[0] or any(nm not in sd for nm in names) or \
            any(step(at, ac, q) != step(st, sd, q) for q in sorted(set(at) | set(st))):
        out.append(("views", "summary-vs-arrays", "same draws: arrays (rows at equal times collapsed) t=%r %r ; "
                    "summary() t=%r %r" % (at, {str(k): v for k, v in ac.items()}, st,
                                           {str(k): v for k, v in sd.items()})))
        return out
    rt, rc = summary_from_histories(hists, names)
    if rt != st or any(rc[nm] != sd.get(nm) for nm in names):
        out.append(("views", "summary-vs-histories", "summary() t=%r %r but node histories give t=%r %r"
                    % (st, {str(k): v for k, v in sd.items()}, rt, {str(k): v for k, v in rc.items()})))
        return out
    # a seeded sequence of calls on the SAME object (summary over everything,
    # summary over a node subset, the accessors): every answer is checked, so a
    # call that silently changes what a later call returns is caught
    def check_accessors():
        try:
            if [float(x) for x in inv.t()] != st:
                return ("views", "t-vs-summary", "t() differs from summary()")
            for nm, fn in (("S", inv.S), ("I", inv.I), ("R", inv.R)):
                if nm in names and all(isinstance(x, str) for x in names):
                    if [int(x) for x in fn()] != sd[nm]:
                        return ("views", "%s-vs-summary" % nm, "%s() differs from summary() (and from the arrays of the same draws)" % nm)
        except Exception as e:
            return ("views", "accessor-raises", "accessor raised %s: %s" % (type(e).__name__, e))
        return None

    def check_full_summary():
        try:
            xt, xd = inv.summary()
            xt = [float(x) for x in xt]
            xd = {kk: [int(x) for x in v] for kk, v in xd.items()}
        except Exception as e:
            return ("summary", "summary-raises", "summary() raised %s: %s" % (type(e).__name__, e))
        if xt != st or any(xd.get(nm) != sd.get(nm) for nm in names):
            return ("views", "summary-changes-between-calls", "summary() now returns t=%r %r, first call returned t=%r %r"
                    % (xt, {str(a): b for a, b in xd.items()}, st, {str(a): b for a, b in sd.items()}))
        return None

    def check_subset():
        if len(labels) < 2:
            return None
        k = rng.randint(1, len(labels) - 1)
        idx = sorted(rng.sample(range(len(labels)), k))
        sub = [labels[i] for i in idx]
        try:
            xt, xd = inv.summary(sub)
            xt = [float(x) for x in xt]
            xd = {kk: [int(x) for x in v] for kk, v in xd.items()}
            wt, wc = summary_from_histories([hists[i] for i in idx], names)
            if xt != wt or any(xd.get(nm) != wc[nm] for nm in names):
                return ("views", "summary-subset", "summary(%r): t=%r %r, recomputed t=%r %r"
                        % (sub, xt, {str(a): b for a, b in xd.items()}, wt, {str(a): b for a, b in wc.items()}))
        except Exception as e:
            return ("views", "summary-subset-raises", "summary(nodelist) raised %s: %s" % (type(e).__name__, e))
        return None

    ops = [check_accessors, check_subset, check_accessors, check_full_summary]
    extra = [check_accessors, check_subset, check_full_summary]
    for _ in range(4):
        ops.append(rng.choice(extra))
    ops.append(check_accessors)
    for op in ops:
        bad = op()
        if bad:
            out.append((bad[0], bad[1], bad[2] + "  [call sequence on one object: %s]" % ", ".join(o.__name__[6:] for o in ops)))
            return out
    # point queries
    tmin = case["tmin"]
    evt = sorted({x for (ts, ss) in hists for x in ts})
    qs = [tmin, evt[-1] + 1.0, evt[-1] + 1e6]
    for x in evt:
        qs.extend([x, math.nextafter(x, INF), x + 1e-9])
        if x > tmin:
            qs.append(max(tmin, math.nextafter(x, -INF)))
            qs.append(max(tmin, x - 1e-9))
    if len(qs) > 40:
        qs = [tmin] + rng.sample(qs, 39)
    for q in qs:
        try:
            got = inv.get_statuses(time=q)
            one = rng.choice(labels)
            g1 = inv.node_status(one, q)
        except Exception as e:
            out.append(("query", "query-raises", "get_statuses/node_status(time=%r) raised %s: %s" % (q, type(e).__name__, e)))
            break
        want = {lab: status_at(h[0], h[1], q) for lab, h in zip(labels, hists)}
        # the nodelist argument: any sub-collection of nodes, in any order
        k = rng.randint(1, len(labels))
        sub = rng.sample(labels, k)
        try:
            gsub = inv.get_statuses(sub if rng.random() < 0.5 else tuple(sub), q)
        except Exception as e:
            out.append(("query", "query-raises", "get_statuses(nodelist, time) raised %s: %s" % (type(e).__name__, e)))
            break
        if dict(gsub) != {x: want[x] for x in sub}:
            out.append(("query", "status-query-nodelist", "time %r: get_statuses(%r) = %r, latest-change rule gives %r"
                        % (q, sub, dict(gsub), {x: want[x] for x in sub})))
            break
        if dict(got) != want or g1 != want[one]:
            out.append(("query", "status-query", "time %r: get_statuses %r, node_status(%r)=%r, latest-change rule gives %r"
                        % (q, dict(got), one, g1, want)))
            break
    try:
        g0 = inv.get_statuses()
        want = {lab: status_at(h[0], h[1], st[0]) for lab, h in zip(labels, hists)}
        if dict(g0) != want:
            out.append(("query", "status-query-default", "get_statuses() = %r, expected first-time statuses %r" % (dict(g0), want)))
    except Exception as e:
        out.append(("query", "query-raises", "get_statuses() raised %s: %s" % (type(e).__name__, e)))
    return out


# ---------------------------------------------------------------- causality
def _status_before(ts, ss, t):
    """Status just before the change(s) at t (status of the latest change
    strictly before t; the first entry if none)."""
    k = 0
    for i, x in enumerate(ts):
        if x < t:
            k = i
    return ss[k]


def _statuses_around(ts, ss, t):
    """Every status the node has at instant t: the one just before the
    changes at t plus each status entered at exactly t (ties)."""
    out = {_status_before(ts, ss, t)}
    for x, s in zip(ts, ss):
        if x == t:
            out.add(s)
    return out


def _changes_at(ts, ss, t):
    return [(ss[k - 1], ss[k]) for k in range(1, len(ts)) if ts[k] == t]


def causality(case, inv, G, labels):
    """C09 on a full-data object.  Tie-tolerant: when several changes share an
    instant, a source counts as infectious at t if it holds the inducing
    status at any point of that instant, and entries are matched to changes
    as multisets per (node, instant)."""
    out = []
    name = case["sim"]
    time, model, _, _ = SIMS[name]
    try:
        tr = list(inv.transmissions())
    except Exception as e:
        return [("transmissions", "transmissions-unavailable", "transmissions() raised %s: %s" % (type(e).__name__, e))]
    tmin = case["tmin"]
    hists = {lab: inv.node_history(lab) for lab in labels}
    if any(b[0] < a[0] for a, b in zip(tr[:-1], tr[1:])):
        return [("order", "transmissions-unordered", "transmission times not ordered: %r" % ([x[0] for x in tr],))]
    directed = G.is_directed()
    disc = (time == "disc")
    generic = (model == "generic")
    if name == "Gillespie_simple_contagion":
        ind = {((contagion.dec_status(a), contagion.dec_status(b)), contagion.dec_status(c))
               for a, b, c, *_ in case["induced"]}
        spont = {(contagion.dec_status(a), contagion.dec_status(b)) for a, b, *_ in case["spont"]}
    requested = None
    if not generic and case.get("I0") is not None:
        requested = {labels[i] for i in case["I0"]}
    sourceless = [v for (t, u, v) in tr if u is None]
    if not generic:
        if requested is not None:
            if sorted(sourceless, key=repr) != sorted(requested, key=repr):
                out.append(("source", "sourceless-entry", "entries without a source for %r, initially infected nodes are %r"
                            % (sorted(sourceless, key=repr), sorted(requested, key=repr))))
                return out
        elif len(set(sourceless)) != len(sourceless):
            return [("source", "sourceless-entry", "duplicate source-less entries %r" % (sourceless,))]
        for (t, u, v) in tr:
            if u is None and not t <= tmin:
                return [("source", "sourceless-entry", "source-less entry (%r, None, %r) after tmin=%r" % (t, v, tmin))]
        init = set(sourceless)
    elif sourceless:
        return [("source", "sourceless-entry", "generic simulator reports source-less entries %r" % (sourceless,))]
    entries = {}      # (target, instant of change) -> number of sourced entries
    for (t, u, v) in tr:
        if u is None:
            continue
        if v not in hists or u not in hists:
            return [("edge", "unknown-node", "transmission (%r,%r,%r): unknown node" % (t, u, v))]
        if not G.has_edge(u, v):
            return [("edge", "not-an-edge", "transmission (%r,%r,%r) is not along an edge%s"
                     % (t, u, v, " in edge direction" if directed else ""))]
        tc = t + 1 if disc else t
        uts, uss = hists[u]
        vts, vss = hists[v]
        src_sts = {status_at(uts, uss, t)} if disc else _statuses_around(uts, uss, t)
        if u == v and not disc and not generic:
            # a node "infecting itself" along a self-loop: the status it enters last at t
            # is the product of this very entry and cannot also be what made it infectious
            seq = [_status_before(uts, uss, t)] + [s for x, s in zip(uts, uss) if x == t]
            src_sts = set(seq[:-1])
        chg = _changes_at(vts, vss, tc)
        if not generic:
            # EoN's histories are lossy at the instant tmin: a node infected at
            # exactly tmin (zero delay) has its first entry overwritten, and
            # further changes at tmin are folded into it.  Entries at tmin are
            # therefore judged leniently (status-function semantics).
            r0 = {labels[i] for i in (case.get("R0") or [])}
            hidden_v = (not disc and tc == tmin and vts[0] == tmin and v not in r0)
            hidden_u = (not disc and t == tmin and uts[0] == tmin and u not in r0 and
                        (uss[0] != "S" or u in init))
            if "I" not in src_sts and not hidden_u:
                return [("source", "source-not-infectious", "transmission (%r,%r,%r): source is not infectious at that "
                         "time, history %r/%r" % (t, u, v, list(uts), list(uss)))]
            if ("S", "I") not in chg and not hidden_v:
                return [("target", "target-not-infected", "transmission (%r,%r,%r): target makes changes %r at %r, "
                         "history %r/%r" % (t, u, v, chg, tc, list(vts), list(vss)))]
        else:
            ok = any(((su, old), new) in ind for su in src_sts for (old, new) in chg)
            if not ok:
                return [("source", "not-an-induced-transition", "transmission (%r,%r,%r): source statuses at that time %r, "
                         "target changes %r: no induced transition of the specification matches"
                         % (t, u, v, sorted(src_sts, key=repr), chg))]
        entries[(v, tc)] = entries.get((v, tc), 0) + 1
    # completeness / exactly one entry per neighbour-induced change after tmin
    for lab in labels:
        ts, ss = hists[lab]
        for tc in sorted(set(ts)):
            chg = _changes_at(ts, ss, tc)
            c = entries.get((lab, tc), 0)
            if not generic:
                need = sum(1 for x in chg if x == ("S", "I"))
                if not disc and tc == tmin and ts[0] == tmin:
                    # lossy instant (see above): only a lower bound is knowable
                    bad = c < need
                else:
                    bad = c != need
                if bad:
                    return [("complete", "entries-vs-infections", "%r is infected %d time(s) at %r but has %d transmission "
                             "entries there (history %r/%r)" % (lab, need, tc, c, list(ts), list(ss)))]
            else:
                must = sum(1 for (o, nw) in chg if any(p[1] == o and cc == nw for (p, cc) in ind) and (o, nw) not in spont)
                may = sum(1 for (o, nw) in chg if any(p[1] == o and cc == nw for (p, cc) in ind))
                if not (must <= c <= may):
                    return [("complete", "entries-vs-induced-changes", "%r makes changes %r at %r: between %d and %d of them "
                             "are neighbour-induced, but there are %d transmission entries" % (lab, chg, tc, must, may, c))]
    # SIR: the transmission tree is a forest rooted at the initially infected nodes
    if model == "SIR":
        try:
            import networkx as nx
            T = inv.transmission_tree()
            indeg = dict(T.in_degree())
            bad = [x for x, d in indeg.items() if d > 1]
            if bad:
                out.append(("tree", "tree-indegree", "node %r has %d infectors in the transmission tree" % (bad[0], indeg[bad[0]])))
            elif T.number_of_nodes() and not nx.is_directed_acyclic_graph(T):
                out.append(("tree", "tree-cycle", "transmission tree has a cycle"))
            else:
                roots = {x for x in T.nodes() if indeg.get(x, 0) == 0}
                if not roots <= init:
                    out.append(("tree", "tree-root", "transmission tree root(s) %r are not initially infected"
                                % (sorted(roots - init, key=repr),)))
        except Exception as e:
            out.append(("tree", "tree-raises", "transmission_tree() raised %s: %s" % (type(e).__name__, e)))
    return out
