"""E1 walks: seeded walks over reachable states of a Gillespie-type simulator,
with the exact one-step law of the real code extracted at every visited state
and compared with a reference model.

An *adapter* wraps one simulator call for one explicit case:
    run(script, full=True) -> RunResult      (end_on_clock seam)
    decode(res) -> (events, final_state)      events = [(node_idx, new_status, src_idx|None|'?')]
    sig_of(res) -> hashable
    init_state -> tuple of statuses (reference's view of the request)
    ref -> reference model with enabled(state) -> {refkey: rate}, apply(state, refkey)
    project(refkey) -> key at the granularity the simulator exposes
    code_key(event, state) -> same granularity key for a decoded event
    hints(state) -> iterable of candidate thresholds (only accelerates)
    name -> simulator name
"""
from .explorer import Explorer, Skip, close, compare_laws
from .refmodels import canon_history

LAW_TOL = 1e-8
CLOCK_REL = 1e-9


def V(cls, key, msg, case=None):
    return {"cls": cls, "key": key, "msg": msg, "case": case}


def decode_investigation(sim, labels, with_trans=True):
    """Events of a Simulation_Investigation in time order.

    Returns (events, final, first, trans_ok): events [(t, idx, status, src)],
    final/first status tuples."""
    index = {lab: i for i, lab in enumerate(labels)}
    events = []
    first = []
    final = []
    for i, lab in enumerate(labels):
        times, sts = sim.node_history(lab)
        ct, cs = canon_history(times, sts)
        first.append(cs[0])
        final.append(cs[-1])
        for t, s in zip(ct[1:], cs[1:]):
            events.append([t, i, s, None])
    events.sort(key=lambda e: (e[0], e[1]))
    trans_ok = False
    if with_trans:
        try:
            tr = sim.transmissions()
            trans_ok = True
        except Exception:
            tr = None
        if tr is not None:
            src = {}
            for (t, u, v) in tr:
                if u is not None:
                    src.setdefault((t, index.get(v)), []).append(index.get(u, "?"))
            for e in events:
                L = src.get((e[0], e[1]))
                if L:
                    e[3] = L[0] if len(L) == 1 else tuple(L)
    if not trans_ok:
        for e in events:
            e[3] = "?"
    return [tuple(e) for e in events], tuple(final), tuple(first), trans_ok


def probe_state(ad, prefix, state, nevents, lam_seen, stats, case_of):
    """Probe the state reached by ``prefix`` (which ends just before the clock
    request of the next step).  Returns (violations, leaves_by_key)."""
    viol = []
    ref_ev = ad.ref.enabled(state)
    tot = sum(ref_ev.values())
    name = ad.name
    if tot <= 0.0:
        # reference is absorbed: the code must not schedule another event
        if lam_seen is not None and lam_seen > 0:
            viol.append(V("absorb", "%s/continues-after-absorption" % name,
                          "reference has no enabled event in state %r but the "
                          "code asked for a clock with rate %r" % (state, lam_seen),
                          case_of(prefix)))
        stats["absorbed"] = stats.get("absorbed", 0) + 1
        return viol, None
    if lam_seen is None:
        viol.append(V("absorb", "%s/stops-with-enabled-events" % name,
                      "reference total rate %r in state %r but the code "
                      "scheduled no event" % (tot, state), case_of(prefix)))
        return viol, None
    stats["max_clock_relerr"] = max(stats.get("max_clock_relerr", 0.0),
                                    abs(lam_seen - tot) / tot)
    if not close(lam_seen, tot, CLOCK_REL):
        viol.append(V("clock_rate", "%s/clock-rate" % name,
                      "state %r: code clock rate %r, reference total rate %r"
                      % (state, lam_seen, tot), case_of(prefix)))
        return viol, None
    base = list(prefix) + [("e", getattr(ad, "clock", 1.0))]
    ref_law = {}
    ref_by_proj = {}
    for rk, r in ref_ev.items():
        pk = ad.project(rk)
        ref_law[pk] = ref_law.get(pk, 0.0) + r / tot
        ref_by_proj.setdefault(pk, []).append(rk)

    def extract(exact):
        ex = Explorer(lambda s: ad.run(s), ad.sig_of, hints=ad.hints(state), exact=exact,
                      max_runs=200000 if exact else 20000)
        leaves = ex.explore(base)
        stats["probe_runs"] = stats.get("probe_runs", 0) + ex.runs
        stats["bisect_probes"] = stats.get("bisect_probes", 0) + ex.bisect_probes
        stats["hint_hits"] = stats.get("hint_hits", 0) + ex.hint_hits
        stats["rejection_loops"] = stats.get("rejection_loops", 0) + ex.loops
        stats["leaves"] = stats.get("leaves", 0) + len(leaves)
        code_law = {}
        by_key = {}
        for lf in leaves:
            if lf.kind == "exc":
                k = ("exc", type(lf.res.exc).__name__)
            elif lf.kind in ("stuck", "after_end"):
                k = (lf.kind,)
            else:
                events, final = ad.decode(lf.res)
                if len(events) != nevents + 1:
                    k = ("nevents", len(events) - nevents)
                else:
                    k = ad.code_key(events[-1], state)
            code_law[k] = code_law.get(k, 0.0) + lf.mass
            by_key.setdefault(k, []).append(lf)
        return code_law, by_key

    code_law, by_key = extract(False)
    bad = compare_laws(code_law, ref_law, LAW_TOL)
    if bad:
        # never report on the strength of the cheap region signatures alone
        stats["exact_reexplorations"] = stats.get("exact_reexplorations", 0) + 1
        code_law, by_key = extract(True)
        bad = compare_laws(code_law, ref_law, LAW_TOL)
    dev = 0.0
    for e in set(code_law) | set(ref_law):
        dev = max(dev, abs(code_law.get(e, 0.0) - ref_law.get(e, 0.0)))
    stats["max_law_dev"] = max(stats.get("max_law_dev", 0.0), dev)
    if bad:
        e, pc, pr = bad[0]
        if e and e[0] == "exc":
            exc = by_key[e][0].res.exc
            viol.append(V("crash", "%s/exception/%s" % (name, e[1]),
                          "state %r: code raises %s(%s) with probability %.6g"
                          % (state, e[1], exc, pc), case_of(prefix)))
        else:
            viol.append(V("jump_law", "%s/jump-law" % name,
                          "state %r: event %r has probability %.12g in the code, "
                          "%.12g in the reference chain; %d events differ; "
                          "code law %r ; reference law %r"
                          % (state, e, pc, pr, len(bad), _fmt(code_law), _fmt(ref_law)),
                          case_of(prefix)))
        return viol, None
    # event applied as selected: the state the code reports after the event
    for k, lfs in by_key.items():
        if k not in ref_by_proj:
            continue
        for lf in lfs:
            events, final = ad.decode(lf.res)
            ok = False
            for rk in ref_by_proj[k]:
                if ad.ref.apply(state, rk) == final:
                    ok = True
            if not ok:
                viol.append(V("event_effect", "%s/event-effect" % name,
                              "state %r: code reports event %r but its final "
                              "statuses are %r" % (state, k, final),
                              case_of(prefix + [("e", getattr(ad, "clock", 1.0))] + lf.path)))
                return viol, None
    return viol, (by_key, ref_by_proj)


def _fmt(law):
    return {repr(k): round(v, 10) for k, v in sorted(law.items(), key=repr)}


def walk(ad, rng, max_steps, stats, case_of, keys=None, prefer=None, trace=None, budget=120000):
    """One seeded walk.  Returns list of violations."""
    res = ad.run([])
    if res.status == "exc":
        ref_ev = ad.ref.enabled(ad.init_state)
        tot = sum(ref_ev.values())
        return [V("crash", "%s/exception-at-start/%s%s" %
                  (ad.name, type(res.exc).__name__, "/total-rate-zero" if tot <= 0 else ""),
                  "initial state %r (reference total rate %r): %s: %s"
                  % (ad.init_state, tot, type(res.exc).__name__, res.exc), case_of([]))]
    if res.status != "done":
        raise Skip("start: %r" % res)
    events, final = ad.decode(res)
    viol = []
    if events or final != ad.init_state:
        return [V("initial_state", "%s/initial-state" % ad.name,
                  "requested %r but the run starts from %r with events %r"
                  % (ad.init_state, final, events), case_of([]))]
    state = ad.init_state
    prefix = []
    nev = 0
    lam = res.next_clock
    runs0 = stats.get("probe_runs", 0)
    for step in range(max_steps):
        if stats.get("probe_runs", 0) - runs0 > budget:
            # bounded cost per walk: stop walking (not a verdict)
            stats["walks_stopped_by_budget"] = stats.get("walks_stopped_by_budget", 0) + 1
            break
        if keys is not None:
            keys.add("%s|%s" % (ad.case_digest, ",".join(map(str, state))))
        stats["states_probed"] = stats.get("states_probed", 0) + 1
        v, info = probe_state(ad, prefix, state, nev, lam, stats, case_of)
        if v:
            return v
        if info is None:
            break
        by_key, ref_by_proj = info
        cands = sorted(by_key.keys(), key=repr)
        if prefer is not None:
            k = prefer(rng, cands, state, step)
        else:
            k = rng.choice(cands)
        lf = rng.choice(by_key[k])
        events, final = ad.decode(lf.res)
        prefix = prefix + [("e", getattr(ad, "clock", 1.0))] + lf.path
        state = final
        nev += 1
        lam = lf.res.next_clock
        if trace is not None:
            trace["prefix"] = prefix
            trace["state"] = state
        stats["events_walked"] = stats.get("events_walked", 0) + 1
    return viol
