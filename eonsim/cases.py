"""Seeded swarm generation of explicit, JSON-able cases.

A graph spec is
  {"directed": bool,
   "nodes":  [label, ...]            insertion order; labels JSON-encoded
   "nattr":  [ {attr: value}, ...]   parallel to nodes
   "edges":  [[i, j, {attr: value}], ...]  indices into nodes, insertion order}
Labels: int and str are themselves; a tuple is {"t": [...]}, a frozenset is
{"fs": [...]}, a numpy int64 is {"np": n}.
"""
import itertools

import networkx as nx


# ---------------------------------------------------------------- labels
def enc_label(x):
    import numpy as np
    if isinstance(x, bool):
        return {"b": x}
    if isinstance(x, np.integer):
        return {"np": int(x)}
    if isinstance(x, (int, str)):
        return x
    if isinstance(x, float):
        return {"f": x}
    if isinstance(x, tuple):
        return {"t": [enc_label(y) for y in x]}
    if isinstance(x, frozenset):
        return {"fs": sorted((enc_label(y) for y in x), key=repr)}
    if x is None:
        return None
    raise TypeError("label %r" % (x,))


def dec_label(x):
    import numpy as np
    if isinstance(x, dict):
        if "t" in x:
            return tuple(dec_label(y) for y in x["t"])
        if "fs" in x:
            return frozenset(dec_label(y) for y in x["fs"])
        if "np" in x:
            return np.int64(x["np"])
        if "f" in x:
            return float(x["f"])
        if "b" in x:
            return bool(x["b"])
    if isinstance(x, list):
        return tuple(dec_label(y) for y in x)
    return x


LABEL_SCHEMES = ("int", "perm", "str", "tuple", "npint", "fset", "mixed", "falsy")


def make_labels(rng, n, scheme):
    if scheme == "int":
        return list(range(n))
    if scheme == "perm":
        L = list(range(n))
        rng.shuffle(L)
        return L
    if scheme == "str":
        names = ["n%d" % i for i in range(n)]
        rng.shuffle(names)
        return names
    if scheme == "tuple":
        L = [(i // 3, i % 3) for i in range(n)]
        rng.shuffle(L)
        return L
    if scheme == "npint":
        import numpy as np
        L = [np.int64(i + 10) for i in range(n)]
        rng.shuffle(L)
        return L
    if scheme == "fset":
        L = [frozenset([i, i + 100]) for i in range(n)]
        rng.shuffle(L)
        return L
    if scheme == "falsy":
        # labels whose truth value is False (0, '', (), frozenset()) among ordinary ones:
        # `if node:` style tests in the code under test misbehave exactly for these
        pool = [0, "", (), frozenset(), "a", 7, (1,), "zz", 3, ("p", 2), 11, "k"]
        L = (pool + [100 + i for i in range(n)])[:n]
        rng.shuffle(L)
        return L
    if scheme == "mixed":
        L = []
        for i in range(n):
            L.append(i if i % 2 == 0 else "m%d" % i)
        rng.shuffle(L)
        return L
    raise ValueError(scheme)


# ---------------------------------------------------------------- graphs
FAMILIES = ("path", "star", "cycle", "complete", "gnp", "tree", "twocomp",
            "isolated", "single", "lollipop")


def edge_pairs(rng, n, family):
    """Undirected structure on indices 0..n-1 as a list of (i, j)."""
    if n <= 1 or family == "single":
        return []
    if family == "path":
        return [(i, i + 1) for i in range(n - 1)]
    if family == "star":
        return [(0, i) for i in range(1, n)]
    if family == "cycle":
        if n < 3:
            return [(0, 1)]
        return [(i, (i + 1) % n) for i in range(n)]
    if family == "complete":
        return [(i, j) for i in range(n) for j in range(i + 1, n)]
    if family == "gnp":
        p = rng.choice([0.3, 0.5, 0.8])
        return [(i, j) for i in range(n) for j in range(i + 1, n) if rng.random() < p]
    if family == "tree":
        return [(rng.randrange(i), i) for i in range(1, n)]
    if family == "twocomp":
        k = max(1, n // 2)
        a = [(i, i + 1) for i in range(k - 1)]
        b = [(i, i + 1) for i in range(k, n - 1)]
        return a + b
    if family == "isolated":
        k = max(1, n - rng.randint(1, 2))
        return [(rng.randrange(i), i) for i in range(1, k)]
    if family == "lollipop":
        k = max(2, n // 2 + 1)
        return [(i, j) for i in range(k) for j in range(i + 1, k)] + \
               [(i, i + 1) for i in range(k - 1, n - 1)]
    raise ValueError(family)


WEIGHT_SCHEMES = ("ones", "dyadic", "tenth", "somezero", "wide", "twolevel", "tiny")


def draw_weight(rng, scheme):
    if scheme == "ones":
        return 1.0
    if scheme == "dyadic":
        return rng.choice([0.25, 0.5, 1.0, 2.0, 4.0])
    if scheme == "tenth":
        return 0.1 * rng.randint(1, 30)
    if scheme == "somezero":
        return rng.choice([0.0, 0.0, 0.5, 1.0, 1.7])
    if scheme == "wide":
        return rng.choice([1e-3, 0.02, 0.3, 1.0, 7.0, 250.0, 1e3])
    if scheme == "twolevel":
        return rng.choice([1.0, 1.0, 1.0, 9.0])
    if scheme == "tiny":
        # every rate of the run is ~1e-9: totals live far below any absolute threshold
        return 1e-9 * rng.randint(1, 9)
    raise ValueError(scheme)


def gen_graph(rng, nmin=1, nmax=6, directed=False, family=None, label=None,
              edge_w=None, node_w=None, shuffle=True, extra_edge_attrs=None, selfloops=0.0):
    """Explicit graph spec.  edge_w / node_w name a weight scheme or None."""
    n = rng.randint(nmin, nmax)
    family = family or rng.choice(FAMILIES)
    label = label or "int"
    pairs = edge_pairs(rng, n, family)
    if shuffle:
        # relabel indices by a random permutation, random orientation of each
        # listed edge and random insertion order: adjacency order is free
        perm = list(range(n))
        rng.shuffle(perm)
        pairs = [(perm[i], perm[j]) for i, j in pairs]
        pairs = [(j, i) if rng.random() < 0.5 else (i, j) for i, j in pairs]
        rng.shuffle(pairs)
    edges = []
    if directed:
        for i, j in pairs:
            c = rng.random()
            if c < 0.45:
                edges.append([i, j, {}])
            elif c < 0.6:
                edges.append([j, i, {}])
            else:
                edges.append([i, j, {}])
                edges.append([j, i, {}])
        if shuffle:
            rng.shuffle(edges)
    else:
        edges = [[i, j, {}] for i, j in pairs]
    if selfloops and rng.random() < selfloops:
        for _ in range(rng.randint(1, 2)):
            i = rng.randrange(n)
            if not any(e[0] == i and e[1] == i for e in edges):
                edges.insert(rng.randint(0, len(edges)), [i, i, {}])
    for e in edges:
        if edge_w:
            e[2]["w"] = draw_weight(rng, edge_w)
        for name, scheme in (extra_edge_attrs or {}).items():
            e[2][name] = draw_weight(rng, scheme)
    nattr = [{} for _ in range(n)]
    if node_w:
        for a in nattr:
            a["nw"] = draw_weight(rng, node_w)
    labels = make_labels(rng, n, label)
    return {"directed": bool(directed), "family": family, "label": label,
            "nodes": [enc_label(x) for x in labels], "nattr": nattr,
            "edges": edges}


def build_graph(spec):
    G = nx.DiGraph() if spec["directed"] else nx.Graph()
    labels = [dec_label(x) for x in spec["nodes"]]
    for lab, a in zip(labels, spec["nattr"]):
        G.add_node(lab, **a)
    for i, j, a in spec["edges"]:
        G.add_edge(labels[i], labels[j], **a)
    return G, labels


def graph_digest(spec):
    """Digest of the structure (labels included)."""
    import hashlib
    import json
    return hashlib.sha256(json.dumps([spec["directed"], spec["nodes"], spec["nattr"],
                                      spec["edges"]], sort_keys=True).encode()).hexdigest()[:12]


def all_subsets(seq, k):
    return list(itertools.combinations(seq, k))


RATES = (0.0, 0.25, 1.0, 0.3, 0.7, 1.3, 10.0)


def draw_rate(rng, allow_zero=True):
    r = rng.choice(RATES)
    if not allow_zero and r == 0.0:
        r = 0.7
    return r
