"""E4 - candidate-set operation machine (C16).

Seeded sequences of insert / update(+d>=0) / remove / random_removal /
choose_random / total_weight on EoN.simulation._ListDict_(weighted=True)
against a plain dict item->weight.  After every operation: membership, len,
total_weight() == sum of weights to rounding, and the selection law of
choose_random() -- extracted exactly by the draw-tree explorer on a deep copy
of the structure -- equals weight / sum, zero-weight items at mass 0.
"""
import copy
import math

from . import load_eon
from .explorer import Explorer, Skip, compare_laws
from .seam import SCRIPTED, SimRandom, run_under

EoN = load_eon()

W_POOL = [0.0, 0.25, 0.5, 1.0, 2.0, 0.1, 0.3, 0.7, 1.1, 2.3, 1e-3, 250.0, 1e3, 9.0]
D_POOL = [0.0, 0.25, 0.5, 1.0, 0.1, 0.3, 2.3, 9.0, 250.0]
ITEMS = ["a", "b", "c", "d", "e", ("a", "b"), ("b", "a"), 7]


API = ("insert", "update", "remove", "choose_random", "random_removal", "total_weight", "__len__", "__contains__")


def get_class():
    """The private candidate-set class, or None when it does not exist (any
    more) with the interface this machine drives - in which case the machine
    is skipped and only the behavioural walks decide C16."""
    import EoN.simulation as S
    cls = getattr(S, "_ListDict_", None)
    if cls is None or any(not hasattr(cls, m) for m in API):
        return None
    try:
        cls(weighted=True)
    except Exception:
        return None
    return cls


class Machine(object):
    def __init__(self, cls):
        self.ld = cls(weighted=True)
        self.bag = {}
        self.stats = {}
        self.ever = set()

    def law(self, exact=False):
        ld = self.ld

        def run(script):
            c = copy.deepcopy(ld)
            sim = SimRandom(SCRIPTED, script=script)
            return run_under(sim, c.choose_random)

        def sig(res):
            if res.status == "done":
                return ("item", repr(res.value))
            return (res.status, type(res.exc).__name__ if res.exc is not None else None)
        tot = sum(self.bag.values())
        hints = set()
        if self.bag:
            m = max(self.bag.values())
            if m > 0:
                for w in self.bag.values():
                    hints.add(w / m)
            for mm in self.ever:      # a stale maximum is a weight that was once present
                if mm > m:
                    for w in self.bag.values():
                        hints.add(w / mm)
        ex = Explorer(run, sig, hints=hints, max_runs=100000 if exact else 5000, exact=exact)
        leaves = ex.explore([])
        self.stats["probe_runs"] = self.stats.get("probe_runs", 0) + ex.runs
        self.stats["rejection_loops"] = self.stats.get("rejection_loops", 0) + ex.loops
        code = {}
        for lf in leaves:
            if lf.kind == "done":
                k = ("item", repr(lf.res.value))
            elif lf.kind == "exc":
                k = ("exc", type(lf.res.exc).__name__)
            else:
                k = (lf.kind,)
            code[k] = code.get(k, 0.0) + lf.mass
        ref = {("item", repr(ITEMS[i])): w / tot for i, w in self.bag.items() if w > 0}
        return code, ref, leaves

    def check(self, opname):
        """Invariants after an operation.  Returns a violation message or None."""
        ld, bag = self.ld, self.bag
        if len(ld) != len(bag):
            return ("membership", "after %s: candidate set has len %d, reference holds %r"
                    % (opname, len(ld), sorted(repr(ITEMS[i]) for i in bag)))
        for i in range(len(ITEMS)):
            if (ITEMS[i] in ld) != (i in bag):
                return ("membership", "after %s: `%r in set` is %r, reference %r"
                        % (opname, ITEMS[i], ITEMS[i] in ld, i in bag))
        tot = math.fsum(bag.values())
        tw = ld.total_weight()
        scale = max([abs(w) for w in bag.values()] + [self.peak, 1e-300])
        self.stats["max_total_relerr"] = max(self.stats.get("max_total_relerr", 0.0), abs(tw - tot) / scale)
        if abs(tw - tot) > 1e-9 * scale:
            return ("total_weight", "after %s: total_weight() = %r, sum of current weights = %r (weights %r)"
                    % (opname, tw, tot, {repr(ITEMS[i]): w for i, w in bag.items()}))
        self.last_probed = False
        if tot > 0:
            # "zero-weight candidates are never selected" holds for EVERY outcome of the draws, the
            # uniform 0.0 included: script the proposal of each zero-weight member followed by u = 0.0
            items = list(getattr(ld, "items", []))
            for pos, it in enumerate(items):
                ii = [i for i in bag if ITEMS[i] == it]
                if ii and bag[ii[0]] == 0:
                    c = copy.deepcopy(ld)
                    r = run_under(SimRandom(SCRIPTED, script=[("c", pos), ("r", 0.0)]), c.choose_random)
                    if r.status == "done" and r.value == it:
                        return ("selection_law", "after %s: zero-weight candidate %r is selected when the accept draw is "
                                "exactly 0.0 (weights %r)" % (opname, it, {repr(ITEMS[i]): w for i, w in bag.items()}))
                    self.stats["zero_weight_boundary_probes"] = self.stats.get("zero_weight_boundary_probes", 0) + 1
            self.last_probed = sum(1 for w in bag.values() if w > 0) >= 2
            code, ref, leaves = self.law()
            bad = compare_laws(code, ref, 1e-8)
            if bad:
                code, ref, leaves = self.law(exact=True)
                bad = compare_laws(code, ref, 1e-8)
            dev = max([abs(code.get(k, 0.0) - ref.get(k, 0.0)) for k in set(code) | set(ref)] + [0.0])
            self.stats["max_law_dev"] = max(self.stats.get("max_law_dev", 0.0), dev)
            self.stats["laws_probed"] = self.stats.get("laws_probed", 0) + 1
            if bad:
                e, pc, pr = bad[0]
                return ("selection_law", "after %s: %r selected with probability %.12g, weight/sum = %.12g "
                        "(weights %r, code law %r)" % (opname, e, pc, pr,
                                                      {repr(ITEMS[i]): w for i, w in bag.items()},
                                                      {repr(k): round(v, 9) for k, v in code.items()}))
        return None

    peak = 0.0

    def apply(self, op):
        """Apply one op to both; returns the concrete op actually performed."""
        ld, bag = self.ld, self.bag
        name = op[0]
        if name == "insert":
            _, it, w = op
            ld.insert(ITEMS[it], weight=w)
            if it in bag:
                del bag[it]
            if w != 0:
                bag[it] = w
        elif name == "update":
            _, it, d = op
            ld.update(ITEMS[it], weight_increment=d)
            bag[it] = bag.get(it, 0.0) + d
        elif name == "remove":
            _, it = op
            if it not in bag:
                return None
            ld.remove(ITEMS[it])
            del bag[it]
        elif name == "random_removal":
            # pick the outcome through the explorer (seeded leaf), then drive
            # the real object with that script
            if sum(bag.values()) <= 0:
                return None
            code, ref, leaves = self.law()
            good = [lf for lf in leaves if lf.kind == "done"]
            if not good:
                return None
            lf = good[int(op[1] * len(good)) % len(good)]
            sim = SimRandom(SCRIPTED, script=lf.path)
            res = run_under(sim, ld.random_removal)
            if res.status != "done":
                raise Skip("random_removal did not follow its script: %r" % res)
            it = [i for i in bag if ITEMS[i] == res.value]
            if len(it) != 1:
                return ("membership", "random_removal returned %r which is not a member" % (res.value,))
            if bag[it[0]] <= 0:
                return ("selection_law", "random_removal removed zero-weight item %r" % (res.value,))
            del bag[it[0]]
            self.stats["random_removals"] = self.stats.get("random_removals", 0) + 1
        elif name == "probe":
            pass
        self.peak = max([self.peak] + [abs(w) for w in bag.values()])
        self.ever.update(w for w in bag.values() if w > 0)
        return None


REGIMES = (1.0, 1.0, 1.0, 1e-9, 1e6)


def next_op(rng, bag, scale=1.0):
    """scale: weight regime of this history (all pool weights multiplied by it);
    a history made only of tiny weights makes the running total itself tiny."""
    op = _next_op(rng, bag, scale)
    return op


def _next_op(rng, bag, scale):
    W = [w * scale for w in W_POOL]
    D = [d * scale for d in D_POOL]
    tot = sum(bag.values())
    heavy = max(bag, key=lambda k: bag[k]) if bag else None
    c = rng.random()
    if not bag or c < 0.3:
        it = rng.randrange(len(ITEMS))
        w = rng.choice(W)
        if rng.random() < 0.25 and heavy is not None:
            it, w = heavy, rng.choice([x for x in W if x <= bag[heavy]] or [0.0])
        return ["insert", it, w]
    if c < 0.5:
        it = rng.choice(sorted(bag)) if rng.random() < 0.8 else rng.randrange(len(ITEMS))
        return ["update", it, rng.choice(D)]
    if c < 0.72:
        return ["remove", heavy if rng.random() < 0.6 else rng.choice(sorted(bag))]
    if c < 0.87 and tot > 0:
        return ["random_removal", rng.random()]
    if c < 0.93 and len(bag) >= 1:
        # empty the set and refill
        return ["remove", rng.choice(sorted(bag))]
    return ["probe"]


def run_ops(ops, stats=None):
    """Run an explicit op list.  Returns (violation or None, ops_done)."""
    cls = get_class()
    if cls is None:
        raise Skip("class _ListDict_ not found")
    m = Machine(cls)
    if stats is not None:
        m.stats = stats
    for k, op in enumerate(ops):
        try:
            r = m.apply(op)
        except Skip:
            raise
        except Exception as e:
            return ("crash", "%s raised %s: %s" % (op, type(e).__name__, e)), k
        if r is not None:
            return r, k
        try:
            bad = m.check(repr(op))
        except Skip:
            raise
        except Exception as e:
            return ("crash", "invariant probe after %s raised %s: %s" % (op, type(e).__name__, e)), k
        if bad:
            return bad, k
    return None, len(ops)


def run_seeded(rng, nops, stats):
    cls = get_class()
    if cls is None:
        raise Skip("class _ListDict_ not found")
    m = Machine(cls)
    m.stats = stats
    ops = []
    stats["_probed"] = []
    scale = rng.choice(REGIMES)
    if scale != 1.0:
        stats["regime_%g" % scale] = 1
    for _ in range(nops):
        op = next_op(rng, m.bag, scale)
        ops.append(op)
        if op[0] == "remove" and m.bag and op[1] == max(m.bag, key=lambda k: m.bag[k]):
            stats["fault_F5_heaviest_removed"] = stats.get("fault_F5_heaviest_removed", 0) + 1
        if op[0] == "insert" and op[1] in m.bag and op[2] < m.bag[op[1]] and \
                op[1] == max(m.bag, key=lambda k: m.bag[k]):
            stats["fault_F5_heaviest_replaced_lighter"] = stats.get("fault_F5_heaviest_replaced_lighter", 0) + 1
        if (op[0] in ("insert", "update")) and op[2] == 0:
            stats["fault_F4_zero_weight_op"] = stats.get("fault_F4_zero_weight_op", 0) + 1
        try:
            r = m.apply(op)
        except Skip:
            raise
        except Exception as e:
            return ("crash", "%s raised %s: %s" % (op, type(e).__name__, e)), ops
        if r is None:
            try:
                r = m.check(repr(op))
            except Skip:
                raise
            except Exception as e:
                r = ("crash", "invariant probe after %s raised %s: %s" % (op, type(e).__name__, e))
        stats["_probed"].append(bool(getattr(m, "last_probed", False)))
        if r is not None:
            return r, ops
        if not m.bag:
            stats["set_emptied"] = stats.get("set_emptied", 0) + 1
    return None, ops


def shrink_ops(ops, cls_name):
    """Greedy: drop operations while the same violation class persists."""
    def fails(o):
        try:
            r, _ = run_ops(o)
        except Skip:
            return False
        return r is not None and r[0] == cls_name
    r, k = run_ops(ops)
    ops = ops[:k + 1]
    changed = True
    while changed:
        changed = False
        for i in range(len(ops) - 1, -1, -1):
            cand = ops[:i] + ops[i + 1:]
            if cand and fails(cand):
                ops = cand
                changed = True
    return ops


def sample_check(rng, stats, nops=25, ndraws=40000):
    """Implementation-agnostic back-up of the explorer: a seeded history in a wide weight regime, then
    ndraws real choose_random() calls under a seeded stream; exact binomial test of every candidate's
    frequency against weight/sum (total false-alarm probability 1e-9 per invocation, split over the
    cells of this sample by the caller).  Sees what enumeration of one draw tree cannot: behaviour that
    depends on how often the rejection loop has already gone round."""
    import random as _r
    from . import lawtest
    cls = get_class()
    if cls is None:
        raise Skip("class _ListDict_ not found")
    m = Machine(cls)
    m.stats = {}
    ops = []
    scale = 1.0
    pool = [1e-3, 0.02, 0.3, 1.0, 7.0, 250.0, 1e3, 1.0, 1.0]
    for _ in range(nops):
        c = rng.random()
        if not m.bag or c < 0.55:
            op = ["insert", rng.randrange(len(ITEMS)), rng.choice(pool)]
        elif c < 0.7:
            op = ["update", rng.choice(sorted(m.bag)), rng.choice([0.3, 1.0, 250.0])]
        elif c < 0.9:
            op = ["remove", rng.choice(sorted(m.bag))]
        else:
            op = ["insert", rng.choice(sorted(m.bag)), rng.choice(pool)]
        ops.append(op)
        m.apply(op)
    tot = sum(m.bag.values())
    if tot <= 0 or len(m.bag) < 2:
        return None, ops, 0
    seed = rng.getrandbits(40)
    # Cost guard, decided by counting draws (never by a clock, so that it replays): a history can leave
    # the sampler with an acceptance probability of 1e-6 (a stale largest weight of 1000 over members
    # of weight 0.001 is harmless for the law and is what the pinned code does); 40000 selections would
    # then take hours.  A pilot of 300 selections under a counting stream of its own must stay below
    # 100 uniforms per selection, otherwise the sample is skipped (the explorer's exact probes of the
    # machine family still cover that history).
    import EoN.simulation as _S

    class _Budget(Exception):
        pass

    class _Counting(_r.Random):
        calls = 0

        def random(self):
            self.calls += 1
            if self.calls > 30000:
                raise _Budget()
            return super().random()
    old_random = _S.random
    _S.random = _Counting(seed + 1)
    try:
        for _ in range(300):
            m.ld.choose_random()
    except _Budget:
        stats["sample_skipped_low_acceptance"] = stats.get("sample_skipped_low_acceptance", 0) + 1
        return None, ops, -1
    finally:
        _S.random = old_random
    counts = {}
    with lawtest.fast_seeded(seed):
        for _ in range(ndraws):
            it = m.ld.choose_random()
            counts[repr(it)] = counts.get(repr(it), 0) + 1
    expected = {repr(ITEMS[i]): w / tot for i, w in m.bag.items()}
    cells = lawtest.test_cells(ndraws, counts, expected, min_expected=5.0)
    return (cells, ndraws, {repr(ITEMS[i]): w for i, w in m.bag.items()}), ops, len(cells)
