"""E3 - seeded law sampler against the exact master equation.

A configuration is sampled in batches (one task each); finalize() merges the
batches of a configuration and tests every cell of the status-vector law with
an exact two-sided binomial tail at level DELTA / (number of cells tested in
this invocation), so the probability of *any* false alarm in one invocation
is at most DELTA when the code samples the reference law.
"""
import random as _random
from contextlib import contextmanager

DELTA = 1e-9


class _NpR(object):
    def __init__(self, rs):
        self._rs = rs

    def seed(self, *a, **k):
        return None

    def __getattr__(self, name):
        return getattr(self._rs, name)


class _Np(object):
    def __init__(self, real, rs):
        object.__setattr__(self, "_real", real)
        object.__setattr__(self, "random", _NpR(rs))

    def __getattr__(self, name):
        return getattr(self._real, name)


@contextmanager
def fast_seeded(seed):
    """Seeded seam at full speed: EoN.simulation.random is a private
    random.Random(seed) instance, np.random a private RandomState."""
    import EoN.simulation as S
    import numpy as np
    old_r, old_np = S.random, S.np
    r = _random.Random(seed)
    S.random = r
    S.np = _Np(old_np, np.random.RandomState(seed % (2 ** 31)))
    try:
        yield r
    finally:
        S.random = old_r
        S.np = old_np


def sample_counts(call, n, seed, stat):
    """Run call() n times under one seeded stream; stat(value) -> hashable or
    list of hashables (several statistics per run).  Returns dict key->count."""
    counts = {}
    with fast_seeded(seed):
        for _ in range(n):
            v = call()
            for k in stat(v):
                counts[k] = counts.get(k, 0) + 1
    return counts


def merge_counts(parts):
    out = {}
    for p in parts:
        for k, v in p.items():
            out[k] = out.get(k, 0) + v
    return out


def test_cells(n, counts, expected, min_expected=10.0):
    """counts: key -> observed count; expected: key -> probability (sums to 1
    over the keys of one statistic).  Returns (cells, worst) where cells is a
    list of (key, observed, prob) after pooling small cells into 'other'."""
    cells = []
    pool_o, pool_p = 0, 0.0
    for k in sorted(set(counts) | set(expected), key=repr):      # order must not depend on the hash seed
        p = expected.get(k, 0.0)
        o = counts.get(k, 0)
        if n * p < min_expected:
            pool_o += o
            pool_p += p
        else:
            cells.append((k, o, p))
    if pool_p > 0 or pool_o > 0:
        cells.append(("other", pool_o, pool_p))
    return cells


def pvalue(n, o, p):
    from scipy.stats import binom
    if p <= 0.0:
        return 1.0 if o == 0 else 0.0
    if p >= 1.0:
        return 1.0 if o == n else 0.0
    lo = binom.cdf(o, n, p)
    hi = binom.sf(o - 1, n, p)
    return min(1.0, 2.0 * min(lo, hi))


def decide(tests, delta=DELTA):
    """tests: list of (label, n, cells).  Returns (failures, ncells, worst)
    where failures = [(label, key, observed, n, prob, pvalue)]."""
    ncells = sum(len(c) for _, _, c in tests)
    if ncells == 0:
        return [], 0, None
    level = delta / ncells
    fails = []
    worst = None
    for label, n, cells in tests:
        for k, o, p in cells:
            pv = pvalue(n, o, p)
            z = (o - n * p) / max(1e-300, (n * p * (1 - p)) ** 0.5) if 0 < p < 1 else 0.0
            if worst is None or abs(z) > abs(worst[0]):
                worst = (z, label, repr(k), o, n, p)
            if pv < level:
                fails.append((label, k, o, n, p, pv))
    return fails, ncells, worst


def generic_dist_at(ref, init, T, max_states=6000):
    """Law of the state at time T for any reference model with
    enabled(state) -> {event: rate} and apply(state, event) -> state:
    row of expm(Q T) on the reachable state space."""
    import numpy as np
    from scipy.linalg import expm
    order, index = [init], {init: 0}
    k = 0
    trans = []
    while k < len(order):
        s = order[k]
        k += 1
        for e, r in ref.enabled(s).items():
            t = ref.apply(s, e)
            if t not in index:
                index[t] = len(order)
                order.append(t)
                if len(order) > max_states:
                    return None
            trans.append((index[s], index[t], r))
    m = len(order)
    Q = np.zeros((m, m))
    for i, j, r in trans:
        Q[i, j] += r
        Q[i, i] -= r
    row = expm(Q * T)[0]
    return {order[j]: float(row[j]) for j in range(m) if row[j] > 0}
