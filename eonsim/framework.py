"""Check driver: seeded task fan-out, aggregation in index order, known
findings, minimisation hook, replay files, evidence files.

A check module provides

  PROPERTY   = "C01"
  RULE       = text for evidence.coverage.rule
  ASSUMPTIONS= [..]
  COMPONENTS = {"real": [...], "stub": [...]}
  def plan(tier) -> [(family, n_runs), ...]
  def run_one(family, rng, idx, tier) -> dict with optional keys
        viol    [ {cls, key, msg, case} ]     property violations
        stats   {name: int|float}             summed over runs
        keys    [hashable-as-str]             distinct non-trivial items
        sample  json-able                     an explicit case (a few kept)
        simtime float                         simulated model time covered
        skipped str                           reason when the run was skipped
  def replay(case) -> [ {cls, key, msg, case} ]   re-run one explicit case
  def shrink(viol) -> viol                    optional minimiser

Exit codes: 0 held (known findings are printed), 1 violation, 2 harness error.
"""
import hashlib
import json
import os
import random
import signal
import sys
import time
import traceback
from concurrent.futures import ProcessPoolExecutor
import multiprocessing

from . import VERIF

DEFAULT_SEED = 20261001
RUN_TIMEOUT_S = 1800        # wall-clock safety net per run (hangs)
RUN_CPU_TIMEOUT_S = 600     # CPU time per run: independent of machine load


def derive_rng(seed, prop, family, idx):
    h = hashlib.sha256(("%d|%s|%s|%d" % (seed, prop, family, idx)).encode())
    return random.Random(int.from_bytes(h.digest()[:8], "big"))


def derive_int(seed, *parts):
    h = hashlib.sha256(("%d|" % seed + "|".join(str(p) for p in parts)).encode())
    return int.from_bytes(h.digest()[:6], "big")


class RunTimeout(BaseException):
    pass


def _alarm(signum, frame):
    from . import seam
    if signum == signal.SIGVTALRM and seam.GUARD[0]:
        raise seam.Runaway()
    raise RunTimeout()


_MOD = None
_MEM_DONE = [False]


def _limit_memory():
    """Per-worker address-space limit: current size + 4 GiB."""
    if _MEM_DONE[0]:
        return
    _MEM_DONE[0] = True
    try:
        import resource
        with open("/proc/self/statm") as f:
            pages = int(f.read().split()[0])
        cur = pages * resource.getpagesize()
        lim = cur + 4 * 1024 ** 3
        soft, hard = resource.getrlimit(resource.RLIMIT_AS)
        if hard != resource.RLIM_INFINITY:
            lim = min(lim, hard)
        resource.setrlimit(resource.RLIMIT_AS, (lim, hard))
    except Exception:
        pass


RUNAWAY_BUDGET_S = 240.0


def _seam_runaway_spent():
    try:
        from . import seam
        return seam.RUNAWAY_SPENT[0]
    except Exception:
        return 0.0


def _worker(args):
    modname, prop, seed, tier, family, lo, hi = args
    global _MOD
    if _MOD is None or _MOD.__name__ != modname:
        _MOD = __import__(modname, fromlist=["x"])
    out = []
    signal.signal(signal.SIGALRM, _alarm)
    signal.signal(signal.SIGVTALRM, _alarm)
    _limit_memory()
    for idx in range(lo, hi):
        rng = derive_rng(seed, prop, family, idx)
        t0 = time.time()
        if _seam_runaway_spent() > RUNAWAY_BUDGET_S:
            # code under test whose simulator calls keep running into the 30 s runaway guard: after
            # RUNAWAY_BUDGET_S of that in this worker the remaining runs are not attempted (never a
            # verdict; counted under "skipped" in the evidence) instead of ending in a harness timeout
            out.append({"skipped": "worker's runaway budget spent (simulator calls that do not return)",
                        "_w": 0.0, "_id": (family, idx)})
            continue
        try:
            signal.setitimer(signal.ITIMER_REAL, RUN_TIMEOUT_S)
            signal.setitimer(signal.ITIMER_VIRTUAL, RUN_CPU_TIMEOUT_S)
            r = _MOD.run_one(family, rng, idx, tier) or {}
            signal.setitimer(signal.ITIMER_REAL, 0)
            signal.setitimer(signal.ITIMER_VIRTUAL, 0)
        except RunTimeout:
            signal.setitimer(signal.ITIMER_REAL, 0)
            signal.setitimer(signal.ITIMER_VIRTUAL, 0)
            r = {"harness": "run timeout (%ss cpu / %ss wall) family=%s idx=%d" %
                 (RUN_CPU_TIMEOUT_S, RUN_TIMEOUT_S, family, idx)}
        except MemoryError:
            # a run that never ends usually also grows without bound: the per-worker address-space
            # limit turns that into MemoryError instead of an OOM kill of the whole pool
            signal.setitimer(signal.ITIMER_REAL, 0)
            signal.setitimer(signal.ITIMER_VIRTUAL, 0)
            import gc
            gc.collect()
            r = {"harness": "run timeout (memory limit of the worker exhausted) family=%s idx=%d" % (family, idx)}
        except Exception:
            signal.setitimer(signal.ITIMER_REAL, 0)
            signal.setitimer(signal.ITIMER_VIRTUAL, 0)
            r = {"harness": "harness exception family=%s idx=%d\n%s" %
                 (family, idx, traceback.format_exc())}
        r["_w"] = time.time() - t0
        r["_id"] = (family, idx)
        out.append(r)
    return out


def load_known():
    p = os.path.join(VERIF, "known_findings.json")
    if not os.path.exists(p):
        return {"findings": [], "fixed": []}
    with open(p) as f:
        return json.load(f)


def jdump(obj):
    return json.dumps(obj, sort_keys=True, default=_jdefault)


def _jdefault(o):
    try:
        import numpy as np
        if isinstance(o, np.generic):
            return o.item()
        if isinstance(o, np.ndarray):
            return o.tolist()
    except Exception:
        pass
    if isinstance(o, (set, frozenset)):
        return sorted(o, key=repr)
    if isinstance(o, tuple):
        return list(o)
    return repr(o)


def write_replay(prop, seed, viol, family, idx):
    d = os.path.join(VERIF, "replays")
    os.makedirs(d, exist_ok=True)
    p = os.path.join(d, "%s-%d-%s-%d.json" % (prop, seed, family, idx))
    body = {"property": prop, "seed": seed, "family": family, "run_index": idx,
            "violation": {"cls": viol.get("cls"), "key": viol.get("key"),
                          "msg": viol.get("msg"), "minimised_from": viol.get("minimised_from")},
            "case": viol.get("case")}
    with open(p, "w") as f:
        f.write(json.dumps(body, indent=1, sort_keys=True, default=_jdefault))
    return p


def write_evidence(prop, tier, seed, level, coverage, assumptions, wall,
                   nviol, extra=None):
    d = os.environ.get("EON_VERIF_EVIDENCE_DIR") or os.path.join(VERIF, "evidence")
    if d == "/dev/null":
        return None
    os.makedirs(d, exist_ok=True)
    ev = {"property_id": prop, "tier": tier, "seed": seed, "level": level,
          "coverage": coverage, "assumptions": assumptions,
          "wall_s": round(wall, 3), "violations": nviol}
    if extra:
        ev.update(extra)
    p = os.path.join(d, "%s.json" % prop)
    tmp = p + ".tmp"
    with open(tmp, "w") as f:
        f.write(json.dumps(ev, indent=1, sort_keys=True, default=_jdefault))
    os.replace(tmp, p)
    return p


def main(mod, argv=None):
    argv = list(sys.argv[1:] if argv is None else argv)
    prop = mod.PROPERTY
    tier = os.environ.get("VERIF_TIER", "quick")
    replay = None
    workers = int(os.environ.get("VERIF_WORKERS", "0")) or min(16, os.cpu_count() or 1)
    only = None
    i = 0
    while i < len(argv):
        a = argv[i]
        if a == "--tier":
            tier = argv[i + 1]; i += 2
        elif a == "--replay":
            replay = argv[i + 1]; i += 2
        elif a == "--workers":
            workers = int(argv[i + 1]); i += 2
        elif a == "--family":
            only = argv[i + 1]; i += 2
        else:
            print("unknown argument %r" % a, file=sys.stderr)
            return 2
    if tier not in ("quick", "thorough"):
        print("unknown tier %r" % tier, file=sys.stderr)
        return 2
    seed = int(os.environ.get("VERIF_SEED", DEFAULT_SEED))

    if replay is not None:
        return _replay(mod, replay)

    t0 = time.time()
    plan = [(f, n) for f, n in mod.plan(tier) if only in (None, f)]
    scale = float(os.environ.get("VERIF_SCALE", "1"))
    tasks = []
    for fam, n in plan:
        n = max(1, int(n * scale))
        chunk = max(1, min(64, n // (workers * 4) or 1))
        for lo in range(0, n, chunk):
            tasks.append((mod.__name__, prop, seed, tier, fam, lo, min(n, lo + chunk)))
    # determinism spot check, recorded in the evidence: the first run of every
    # family, executed twice in this process, must give identical results
    spot = {"runs": 0, "mismatches": []}
    if not os.environ.get("EON_VERIF_NO_SPOTCHECK"):
        for fam, n in plan:
            if fam in ("law", "xproc"):
                continue
            d = []
            for _ in range(2):
                try:
                    r = mod.run_one(fam, derive_rng(seed, prop, fam, 0), 0, tier) or {}
                except Exception:
                    r = {"error": traceback.format_exc()[-300:]}
                d.append(hashlib.sha256(jdump(r).encode()).hexdigest())
            spot["runs"] += 1
            if d[0] != d[1]:
                spot["mismatches"].append(fam)
    results = []
    try:
        if workers <= 1:
            for t in tasks:
                results.extend(_worker(t))
        else:
            ctx = multiprocessing.get_context("fork")
            with ProcessPoolExecutor(max_workers=workers, mp_context=ctx) as ex:
                for chunk in ex.map(_worker, tasks):
                    results.extend(chunk)
    except Exception:
        traceback.print_exc()
        print("HARNESS-ERROR property=%s worker pool failed" % prop)
        return 2

    # --- aggregate in task order (deterministic)
    stats = {}
    keys = set()
    samples = []
    viols = []
    harness = []
    skipped = {}
    simtime = 0.0
    per_family = {}
    for r in results:
        fam, idx = r["_id"]
        pf = per_family.setdefault(fam, {"runs": 0, "wall_cpu_s": 0.0})
        pf["runs"] += 1
        pf["wall_cpu_s"] += r["_w"]
        for k, v in (r.get("stats") or {}).items():
            if isinstance(v, str):
                stats[k] = v
            elif k.startswith("max_"):
                stats[k] = max(stats.get(k, v), v)
            else:
                stats[k] = stats.get(k, 0) + v
        for k in r.get("keys") or ():
            keys.add(k)
        if r.get("sample") is not None and len(samples) < 6 and \
                (len(samples) < 2 or fam not in {s.get("family") for s in samples}):
            samples.append({"family": fam, "run_index": idx, "case": r["sample"]})
        for v in r.get("viol") or ():
            viols.append((fam, idx, v))
        if r.get("harness"):
            if r["harness"].startswith("run timeout") and fam in getattr(mod, "TIMEOUT_IS_VIOLATION", ()):
                # the property itself has a termination clause: a run that never ends is a violation
                viols.append((fam, idx, {"cls": "liveness", "key": "%s/run-does-not-terminate" % fam,
                                         "msg": "run %s/%d did not finish within %d s of CPU time: %s"
                                                % (fam, idx, RUN_CPU_TIMEOUT_S, getattr(mod, "TIMEOUT_NOTE", "")),
                                         "case": {"_timeout": True, "family": fam, "idx": idx, "tier": tier, "seed": seed}}))
            else:
                harness.append(r["harness"])
        if r.get("skipped"):
            skipped[r["skipped"]] = skipped.get(r["skipped"], 0) + 1
        simtime += r.get("simtime") or 0.0

    for pf in per_family.values():
        pf["wall_cpu_s"] = round(pf["wall_cpu_s"], 2)

    if hasattr(mod, "finalize"):
        parts = [(r["_id"], r["partial"]) for r in results if r.get("partial") is not None]
        try:
            fin = mod.finalize(parts, tier, seed) or {}
        except Exception:
            harness.append("finalize raised\n" + traceback.format_exc())
            fin = {}
        for k, v in (fin.get("stats") or {}).items():
            stats[k] = v
        for k in fin.get("keys") or ():
            keys.add(k)
        for v in fin.get("viol") or ():
            viols.append((v.get("family", "finalize"), v.get("idx", 0), v))
        for smp in fin.get("samples") or ():
            if len(samples) < 8:
                samples.append(smp)

    known = load_known()
    kf = {(k["property"], k["key"]): k for k in known.get("findings", [])}
    known_hit = {}
    unlisted = []
    for fam, idx, v in viols:
        ent = kf.get((prop, v.get("key")))
        if ent is not None:
            known_hit.setdefault(v["key"], [0, ent])[0] += 1
        else:
            unlisted.append((fam, idx, v))

    rc = 0
    lines = []
    for key in sorted(known_hit):
        n, ent = known_hit[key]
        lines.append("KNOWN-FINDING: property=%s %s (%s; seen %d times)" %
                     (prop, key, ent.get("what", ""), n))
    replay_paths = []
    if unlisted:
        rc = 1
        # report one violation per distinct key, the earliest in task order
        seen = set()
        for fam, idx, v in unlisted:
            if v.get("key") in seen:
                continue
            seen.add(v.get("key"))
            try:
                signal.signal(signal.SIGALRM, _alarm)
                signal.setitimer(signal.ITIMER_REAL, 240)
                if hasattr(mod, "shrink"):
                    v2 = mod.shrink(v)
                else:
                    from .shrink import shrink_case
                    v2 = shrink_case(mod, v)
                signal.setitimer(signal.ITIMER_REAL, 0)
                if v2 is not None:
                    v = v2
            except BaseException:
                signal.setitimer(signal.ITIMER_REAL, 0)
            p = write_replay(prop, seed, v, fam, idx)
            replay_paths.append(p)
            lines.append("VIOLATION property=%s replay=%s" % (prop, p))
            lines.append("  class=%s key=%s" % (v.get("cls"), v.get("key")))
            lines.append("  %s" % (str(v.get("msg"))[:600]))
            if len(seen) >= 8:
                break
    if spot["mismatches"]:
        harness.append("determinism spot check failed for families %r" % spot["mismatches"])
    if harness:
        lines.append("HARNESS-ERROR property=%s count=%d first=%s" %
                     (prop, len(harness), harness[0][:2000]))
        if rc == 0:
            rc = 2

    wall = time.time() - t0
    nruns = len(results)
    coverage = {
        "evaluations": int(stats.get("evaluations", nruns)),
        "distinct_nontrivial": len(keys),
        "rule": mod.RULE,
        "samples": samples if samples else [{"note": "no sample recorded"}],
        "runs": nruns,
        "runs_per_hour": int(nruns / wall * 3600) if wall > 0 else 0,
        "seeds_per_hour": int(nruns / wall * 3600) if wall > 0 else 0,
        "simulated_time_covered": round(simtime, 3),
        "per_family": per_family,
        "stats": {k: (float("%.6g" % v) if isinstance(v, float) else v)
                  for k, v in sorted(stats.items())},
        "skipped": skipped,
        "known_findings_seen": {k: v[0] for k, v in known_hit.items()},
        "unlisted_violations": len(unlisted),
        "unlisted_violation_keys": _count_keys(unlisted),
        "workers": workers,
        "components": getattr(mod, "COMPONENTS", {}),
        "harness_errors": len(harness),
        "determinism_spotcheck": spot,
    }
    write_evidence(prop, tier, seed, getattr(mod, "LEVEL", "exploration"),
                   coverage, list(getattr(mod, "ASSUMPTIONS", [])), wall,
                   len(unlisted))
    print("%s tier=%s seed=%d runs=%d distinct_nontrivial=%d wall=%.1fs "
          "violations=%d known=%d" % (prop, tier, seed, nruns, len(keys), wall,
                                      len(unlisted), sum(v[0] for v in known_hit.values())))
    nskip = sum(skipped.values())
    if nruns and nskip > 0.5 * nruns:
        top = sorted(skipped.items(), key=lambda kv: -kv[1])[:2]
        print("NOTE property=%s %d of %d runs were not judged (%s): the evidence file says why; this is not a verdict"
              % (prop, nskip, nruns, "; ".join("%s x%d" % (k[:60], v) for k, v in top)))
    for ln in lines:
        print(ln)
    sys.stdout.flush()
    return rc


def _count_keys(unlisted):
    d = {}
    for fam, idx, v in unlisted:
        d[str(v.get("key"))] = d.get(str(v.get("key")), 0) + 1
    return d


def _replay(mod, path):
    with open(path) as f:
        body = json.load(f)
    case = body.get("case")
    if isinstance(case, dict) and case.get("_timeout"):
        signal.signal(signal.SIGVTALRM, _alarm)
        signal.setitimer(signal.ITIMER_VIRTUAL, 300)
        try:
            mod.run_one(case["family"], derive_rng(case["seed"], mod.PROPERTY, case["family"], case["idx"]), case["idx"], case["tier"])
            signal.setitimer(signal.ITIMER_VIRTUAL, 0)
            print("replay: the run finishes on this tree")
            return 0
        except RunTimeout:
            signal.setitimer(signal.ITIMER_VIRTUAL, 0)
            print("VIOLATION property=%s replay=%s" % (mod.PROPERTY, os.path.abspath(path)))
            print("  class=liveness key=%s/run-does-not-terminate (300 s of CPU time on replay)" % case["family"])
            return 1
    try:
        viols = mod.replay(case) or []
    except Exception:
        traceback.print_exc()
        print("HARNESS-ERROR property=%s replay raised" % mod.PROPERTY)
        return 2
    want = (body.get("violation") or {}).get("cls")
    hit = [v for v in viols if want is None or v.get("cls") == want]
    if hit:
        print("VIOLATION property=%s replay=%s" % (mod.PROPERTY, os.path.abspath(path)))
        print("  class=%s key=%s" % (hit[0].get("cls"), hit[0].get("key")))
        print("  %s" % (str(hit[0].get("msg"))[:600]))
        return 1
    if viols:
        print("replay produced a different violation class: %s" % viols[0].get("cls"))
        print("VIOLATION property=%s replay=%s" % (mod.PROPERTY, os.path.abspath(path)))
        return 1
    print("replay: no violation reproduced on this tree")
    return 0
