"""Uniform cases and calls for every stochastic simulator (E2 workloads).

A case is a JSON-able dict; call(case, full, sim) runs the real simulator under
the given seam and returns a RunResult; the callbacks handed to the
callback-driven simulators are *keyed pseudo-random tables* (value = hash of
table seed and key), so their answers never depend on the order in which EoN
happens to ask.
"""
import hashlib
import struct

from . import cases, contagion, load_eon
from .seam import BUGGIFY, SEEDED, SimRandom, run_under

EoN = load_eon()
INF = float("inf")

SIMS = {
    # name: (time, model, supports initial_recovereds, default tmax is finite)
    "fast_SIR": ("cont", "SIR", True, False),
    "fast_nonMarkov_SIR": ("cont", "SIR", True, False),
    "Gillespie_SIR": ("cont", "SIR", True, False),
    "fast_SIS": ("cont", "SIS", False, True),
    "fast_nonMarkov_SIS": ("cont", "SIS", False, True),
    "Gillespie_SIS": ("cont", "SIS", False, True),
    "Gillespie_simple_contagion": ("cont", "generic", False, True),
    "Gillespie_complex_contagion": ("cont", "generic", False, True),
    "discrete_SIR": ("disc", "SIR", True, False),
    "basic_discrete_SIR": ("disc", "SIR", True, False),
    "percolation_based_discrete_SIR": ("disc", "SIR", True, False),
    "basic_discrete_SIS": ("disc", "SIS", False, True),
}
CONT = [s for s in SIMS if SIMS[s][0] == "cont"]
DISC = [s for s in SIMS if SIMS[s][0] == "disc"]
WITH_TRANSMISSIONS = [s for s in SIMS if s != "Gillespie_complex_contagion"]

DELAY_POOL = [0.0, 0.25, 0.5, 0.5, 1.0, 1.0, 1.5, 2.0, 3.0, INF]
DUR_POOL = [0.0, 0.5, 1.0, 1.0, 1.5, 2.0, 2.0, 4.0, INF]


def keyed(seed, *key):
    """Uniform float in [0,1) that is a pure function of (seed, key)."""
    h = hashlib.sha256(("%r|%r" % (seed, key)).encode()).digest()
    return struct.unpack(">Q", h[:8])[0] / 18446744073709551616.0


def keyed_choice(pool, seed, *key):
    return pool[int(keyed(seed, *key) * len(pool))]


# ------------------------------------------------------------- generation
def gen_case(rng, sim, nmax=12, buggify=None, horizon=None, allow_rho=True, directed=None,
             zero_delays=True, selfloops=0.0):
    time, model, has_r0, finite_default = SIMS[sim]
    label = rng.choice(cases.LABEL_SCHEMES)
    ew = rng.choice([None, None, None, "dyadic", "tenth", "somezero", "twolevel", "wide", "tiny"])
    nw = rng.choice([None, None, None, "dyadic", "tenth", "somezero", "twolevel", "wide", "tiny"])
    case = {"sim": sim}
    if sim == "Gillespie_simple_contagion":
        c = contagion.gen_simple_case(rng, nmax=min(nmax, 8))
        case.update({k: c[k] for k in ("graph", "statuses", "spont", "induced", "IC", "ret", "ic_type", "template", "ic_extra")})
    elif sim == "Gillespie_complex_contagion":
        # (the `lazy` model, whose chooser may answer the current status, belongs to C15 only: an
        # event that changes nothing is at odds with C04's "exactly one node makes one move" wording,
        # and which of the two a chooser may do is not stated anywhere)
        c = contagion.gen_complex_case(rng, model=rng.choice([m for m in contagion.COMPLEX_MODELS if m != "lazy"]))
        case.update({k: c[k] for k in ("graph", "model", "params", "IC", "ret", "infl_kind", "ic_extra")})
    else:
        spec = cases.gen_graph(rng, 1, nmax, directed=bool(directed), label=label, edge_w=ew, node_w=nw,
                               selfloops=selfloops if selfloops else 0.12)
        case["graph"] = spec
        case["ew"] = bool(ew)
        case["nw"] = bool(nw)
    n = len(case["graph"]["nodes"])
    if model != "generic":
        idx = list(range(n))
        rng.shuffle(idx)
        k = 1 if rng.random() < 0.4 else rng.randint(1, max(1, min(n, 4)))
        if rng.random() < 0.05:
            k = n
        case["I0"] = idx[:k]
        rest = idx[k:]
        case["R0"] = []
        if has_r0 and rest and rng.random() < 0.35:
            case["R0"] = rest[:rng.randint(1, len(rest))]
        case["rho"] = None
        if allow_rho and rng.random() < 0.15:
            case["rho"] = rng.choice([0.0, 0.1, 0.25, 0.5, 1.0])
            case["I0"] = None
            case["R0"] = []
        case["tau"] = cases.draw_rate(rng)
        case["gamma"] = cases.draw_rate(rng)
        case["p"] = rng.choice([0.0, 0.2, 0.5, 0.8, 1.0])
        case["tabseed"] = rng.getrandbits(32)
        case["api"] = rng.choice(["separate", "joint"])
        case["zero_delays"] = bool(zero_delays)
        case["xargs"] = rng.random() < 0.5
        case["recovery_rule"] = (sim == "discrete_SIR" and rng.random() < 0.4)
        case["det_rule"] = (sim == "discrete_SIR" and rng.random() < 0.6)
    tmin = rng.choice([0, 0, 5, -2.5, 1000.0, -0.75])
    if time == "disc":
        tmin = rng.choice([0, 0, 5, -3, 1000])
    case["tmin"] = tmin
    h = horizon or rng.choice(["default", "default", "inf", "finite", "finite", "at_tmin", "below_tmin"])
    if h == "default":
        tmax = None
    elif h == "inf":
        tmax = INF
    elif h == "finite":
        tmax = tmin + (rng.randint(1, 6) if time == "disc" else rng.choice([0.3, 1.0, 2.5, 7.0]))
    elif h == "at_tmin":
        tmax = tmin
    else:
        tmax = tmin - 1
    case["tmax"] = tmax
    case["horizon"] = h
    if buggify is None:
        buggify = rng.random() < 0.5
    case["seam"] = {"mode": BUGGIFY if buggify else SEEDED, "seed": rng.getrandbits(40),
                    "bug_rate": rng.choice([0.05, 0.2, 0.5]) if buggify else 0.0,
                    "site_frac": rng.choice([0.3, 0.6, 1.0]),
                    "grid": rng.choice([None, None, 0.5, 0.25]) if buggify else None}
    return case


def make_seam(case):
    s = case["seam"]
    return SimRandom(s["mode"], seed=s["seed"], bug_rate=s.get("bug_rate", 0.0),
                     bug_sites=(s.get("site_frac", 1.0), s["seed"]) if s["mode"] == BUGGIFY else None,
                     grid=s.get("grid"))


# ------------------------------------------------------------- callbacks
class Tables(object):
    """Keyed callback tables for one run (with call recording)."""

    def __init__(self, case, labels, index=None):
        self.seed = case["tabseed"]
        # index: label -> key used in the tables (default: position in labels)
        self.index = index if index is not None else {lab: i for i, lab in enumerate(labels)}
        self.zero = case.get("zero_delays", True)
        # documented contract of fast_nonMarkov_SIS: "All delays are before
        # recovery".  C13 also exercises lists that ignore it (the property
        # speaks of every listed delay), flagged by sis_unfiltered.
        self.unfiltered = bool(case.get("sis_unfiltered"))
        self.age_rule = bool(case.get("age_rule"))
        # the user's rule hands out the SAME stored list object for an ordered pair every time it is asked
        # (a memo table): the list depends on the pair only, is returned unfiltered, and belongs to the user
        self.shared = bool(case.get("sis_shared_lists"))
        self.memo = {}
        # SIS tables on a half-unit grid: attempts coincide with recoveries and with each other
        self.ties = bool(case.get("sis_ties"))
        # extra positional arguments the simulator must forward to each user function
        # (trans_time_args / rec_time_args / trans_and_rec_time_args / args): None = not used
        self.expect = {}
        self.bad_args = []
        self.calls = []
        self.count = {}

    def _args(self, which, args):
        want = self.expect.get(which)
        if want is not None and tuple(args) != tuple(want):
            self.bad_args.append((which, tuple(args), tuple(want)))
        elif want is None and args:
            self.bad_args.append((which, tuple(args), ()))

    def _k(self, *key):
        k = self.count.get(key, 0)
        self.count[key] = k + 1
        return k

    # SIR: one duration per node, one delay per ordered pair
    def sir_delay(self, u, v):
        i, j = self.index[u], self.index[v]
        d = keyed_choice(DELAY_POOL, self.seed, "d", i, j)
        if d == 0.0 and not self.zero:
            d = 0.25
        return d

    def sir_duration(self, u):
        d = keyed_choice(DUR_POOL, self.seed, "r", self.index[u])
        if d == 0.0 and not self.zero:
            d = 0.5
        return d

    def sir_trans_time(self, u, v, *args):
        self._args("trans", args)
        self.calls.append(("trans", u, v))
        return self.sir_delay(u, v)

    def sir_rec_time(self, u, *args):
        self._args("rec", args)
        self.calls.append(("rec", u))
        return self.sir_duration(u)

    def sir_joint(self, node, sus_neighbors, *args):
        self._args("joint", args)
        self.calls.append(("joint", node, tuple(sus_neighbors)))
        return {v: self.sir_delay(node, v) for v in sus_neighbors}, self.sir_duration(node)

    # SIS: k-th infection of a node
    def sis_duration_k(self, i, k):
        if self.ties:
            return keyed_choice((0.5, 1.0, 1.5, 2.0), self.seed, "sr", i, k)
        # distinct event times: irrational-ish offsets keyed by (i,k)
        return 0.3 + 2.5 * keyed(self.seed, "sr", i, k)

    def sis_delays_k(self, i, j, k):
        if self.shared:
            k = 0
        m = int(keyed(self.seed, "sn", i, j, k) * 5)  # 0..4 attempts
        acc, out = 0.0, []
        for a in range(m):
            if self.ties:
                acc += keyed_choice((0.5, 1.0), self.seed, "sd", i, j, k, a)
            else:
                acc += 0.05 + 1.2 * keyed(self.seed, "sd", i, j, k, a)
            out.append(acc)
        return out

    def sis_rec_time(self, u, *args):
        self._args("rec", args)
        i = self.index[u]
        k = self._k("r", i)
        self.calls.append(("rec", u, k))
        return self.sis_duration_k(i, k)

    def sis_trans_time(self, u, v, rec_delay, *args):
        self._args("trans", args)
        i, j = self.index[u], self.index[v]
        k = self._k("t", i, j)
        self.calls.append(("trans", u, v, k))
        if self.shared:
            if (i, j) not in self.memo:
                self.memo[(i, j)] = self.sis_delays_k(i, j, 0)
            return self.memo[(i, j)]
        # documented contract: "All delays are before recovery"
        return [d for d in self.sis_delays_k(i, j, k) if self.unfiltered or d < rec_delay]

    def sis_joint(self, node, neighbors, *args):
        self._args("joint", args)
        i = self.index[node]
        k = self._k("r", i)
        nb = list(neighbors)
        self.calls.append(("joint", node, k))
        dur = self.sis_duration_k(i, k)
        if self.shared:
            out = {}
            for v in nb:
                j = self.index[v]
                if (i, j) not in self.memo:
                    self.memo[(i, j)] = self.sis_delays_k(i, j, 0)
                out[v] = self.memo[(i, j)]
            return out, dur
        return {v: [d for d in self.sis_delays_k(i, self.index[v], k) if self.unfiltered or d < dur] for v in nb}, dur

    # discrete_SIR deterministic rule
    def contact_ok(self, u, v, *args):
        self._args("contact", args)
        self.calls.append(("contact", u, v))
        if self.age_rule:
            # a rule that may answer differently when asked again: keyed by how many steps the source has
            # already been infectious (= how often its recovery was tested), which is the same in both
            # return modes
            return keyed(self.seed, "ca", self.index[u], self.index[v], self.count.get(("rec", self.index[u]), 0)) < 0.45
        return keyed(self.seed, "c", self.index[u], self.index[v]) < 0.55

    def recovers(self, u):
        i = self.index[u]
        k = self._k("rec", i)
        self.calls.append(("recq", u, k))
        return keyed(self.seed, "q", i, k) < 0.5


def ic_args(case, labels, container="list"):
    """kwargs for the initial condition."""
    import numpy as np
    kw = {}
    if case.get("rho") is not None:
        kw["rho"] = case["rho"]
    elif case.get("I0") is not None:
        L = [labels[i] for i in case["I0"]]
        if container == "list":
            kw["initial_infecteds"] = L
        elif container == "tuple":
            kw["initial_infecteds"] = tuple(L)
        elif container == "set":
            kw["initial_infecteds"] = set(L)
        elif container == "node" and len(L) == 1:
            kw["initial_infecteds"] = L[0]
        elif container == "dictkeys":
            kw["initial_infecteds"] = {x: 1 for x in L}.keys()
        else:
            kw["initial_infecteds"] = L
    if case.get("R0"):
        R = [labels[i] for i in case["R0"]]
        rc = case.get("r0_container", "list")
        if rc == "tuple":
            R = tuple(R)
        elif rc == "set":
            R = set(R)
        elif rc == "dictkeys":
            R = {x: 1 for x in R}.keys()
        kw["initial_recovereds"] = R
    return kw


def call(case, full, sim=None, tables=None, container="list"):
    """Run the simulator of ``case`` under ``sim`` (a SimRandom).  Returns
    (RunResult, G, labels, tables)."""
    name = case["sim"]
    if sim is None:
        sim = make_seam(case)
    fn = getattr(EoN, name)
    if name == "Gillespie_simple_contagion":
        ad = contagion.SimpleAdapter(dict(case, prefix=[]))
        kw = dict(tmin=case["tmin"], return_full_data=full)
        if case.get("tmax") is not None:
            kw["tmax"] = case["tmax"]
        if ad.spont_kwargs:
            kw["spont_kwargs"] = ad.spont_kwargs
        if ad.nbr_kwargs:
            kw["nbr_kwargs"] = ad.nbr_kwargs
        res = run_under(sim, fn, ad.G, ad.H, ad.J, ad._ic(), list(ad.ret), **kw)
        return res, ad.G, ad.labels, None
    if name == "Gillespie_complex_contagion":
        ad = contagion.ComplexAdapter(dict(case, prefix=[]))
        kw = dict(tmin=case["tmin"], return_full_data=full, parameters=ad.params)
        if case.get("tmax") is not None:
            kw["tmax"] = case["tmax"]
        IC = {lab: s for lab, s in zip(ad.labels, ad.init_state)}
        if case.get("ic_extra"):
            IC[("not", "a", "node")] = ad.init_state[0]
            IC["__outside__"] = ad.init_state[-1]
        res = run_under(sim, fn, ad.G, ad.rate, ad.choose, ad.infl, IC, list(case["ret"]), **kw)
        return res, ad.G, ad.labels, None
    G, labels = cases.build_graph(case["graph"])
    kw = ic_args(case, labels, container)
    kw["tmin"] = case["tmin"]
    kw["return_full_data"] = full
    if case.get("tmax") is not None:
        kw["tmax"] = case["tmax"]
    if tables is None:
        tables = Tables(case, labels)
    if name in ("fast_SIR", "fast_SIS", "Gillespie_SIR", "Gillespie_SIS"):
        kw["transmission_weight"] = "w" if case.get("ew") else None
        kw["recovery_weight"] = "nw" if case.get("nw") else None
        res = run_under(sim, fn, G, case["tau"], case["gamma"], **kw)
    elif name in ("fast_nonMarkov_SIR", "fast_nonMarkov_SIS"):
        sir = name.endswith("SIR")
        xa = case.get("xargs")
        if case["api"] == "joint":
            kw["trans_and_rec_time_fxn"] = tables.sir_joint if sir else tables.sis_joint
            if xa:
                kw["trans_and_rec_time_args"] = ("J", 3.5)
                tables.expect["joint"] = ("J", 3.5)
        else:
            kw["trans_time_fxn"] = tables.sir_trans_time if sir else tables.sis_trans_time
            kw["rec_time_fxn"] = tables.sir_rec_time if sir else tables.sis_rec_time
            if xa:
                kw["trans_time_args"] = ("T", 1)
                kw["rec_time_args"] = ("R", 2, None)
                tables.expect["trans"] = ("T", 1)
                tables.expect["rec"] = ("R", 2, None)
        res = run_under(sim, fn, G, **kw)
    elif name == "discrete_SIR":
        if case.get("det_rule"):
            kw["test_transmission"] = tables.contact_ok
            if case.get("xargs"):
                kw["args"] = ("A", 0.25)
                tables.expect["contact"] = ("A", 0.25)
        else:
            kw["args"] = (case["p"],)
        if case.get("recovery_rule"):
            kw["test_recovery"] = tables.recovers
        res = run_under(sim, fn, G, **kw)
    elif name in ("basic_discrete_SIR", "percolation_based_discrete_SIR", "basic_discrete_SIS"):
        res = run_under(sim, fn, G, case["p"], **kw)
    else:
        raise ValueError(name)
    return res, G, labels, tables


def status_names(case):
    name = case["sim"]
    model = SIMS[name][1]
    if model == "SIR":
        return ["S", "I", "R"]
    if model == "SIS":
        return ["S", "I"]
    return [contagion.dec_status(s) for s in case["ret"]]


def legal_moves(case):
    """Set of (old, new) single-node moves the model allows (None = any)."""
    name = case["sim"]
    model = SIMS[name][1]
    if model == "SIR":
        return {("S", "I"), ("I", "R")}
    if model == "SIS":
        return {("S", "I"), ("I", "S")}
    if name == "Gillespie_simple_contagion":
        mv = set()
        for a, b, *_ in case["spont"]:
            mv.add((contagion.dec_status(a), contagion.dec_status(b)))
        for a, b, c, *_ in case["induced"]:
            mv.add((contagion.dec_status(b), contagion.dec_status(c)))
        return mv
    return None
