#!/usr/bin/env python3-vt
"""Validates MANIFEST.json and every evidence/<id>.json against the schemas in /root/.vp (needs jsonschema: python3-vt)."""
import glob
import json
import sys

import jsonschema

ok = True
man = json.load(open("/verif/MANIFEST.json"))
jsonschema.validate(man, json.load(open("/root/.vp/MANIFEST.schema.json")))
es = json.load(open("/root/.vp/EVIDENCE.schema.json"))
claimed = {c["property_id"] for c in man["checks"]}
na = {c["property_id"] for c in man.get("not_applicable", [])}
props = {json.loads(l)["id"] for l in open("/verif/properties.jsonl")}
if claimed | na != props or claimed & na:
    print("MANIFEST does not partition the properties:", sorted(props - claimed - na), sorted(claimed & na))
    ok = False
for c in man["checks"]:
    f = c["evidence_file"]
    try:
        ev = json.load(open(f))
        jsonschema.validate(ev, es)
        cov = ev["coverage"]
        print("%s ok  tier=%s evaluations=%d distinct=%d wall=%.1fs violations=%s" % (
            c["property_id"], ev["tier"], cov["evaluations"], cov["distinct_nontrivial"], ev["wall_s"], ev.get("violations")))
        if ev.get("violations"):
            ok = False
    except Exception as e:
        print(c["property_id"], "INVALID", str(e)[:200])
        ok = False
sys.exit(0 if ok else 1)
