#!/venv/bin/python
"""Writes /verif/seeded/INDEX.md from the meta.json files."""
import glob
import json
import os

HERE = os.path.dirname(os.path.abspath(__file__))
MISSED_FIRST = {
    "C13a_stop_attempts_after_source_recovery": "C13 tables obeyed 'all delays before recovery'; now half the cases ignore it",
    "C14b_ode_SkIl_transposed": "ODE half was outside the workload; C14 family `ode` added (found genuine defect #10)",
    "C15a_influence_iterator_consumed": "influence sets were always lists; now list/iterator/generator/tuple/set/dict keys",
    "C16b_residue_guard_clamps_to_zero": "no total below 1e-7 existed; weight regimes x1e-9 / 'tiny' scheme added",
    "C10c_accessors_after_subset_summary": "accessors were only called before summary(subset); now a seeded call sequence on one object",
    "C04d_small_total_snapped_to_zero": "caught by C16/C01 at once; C04 itself only after 'tiny'/'wide' weights entered the sweeps",
    "C11c_directed_weight_table_overwritten": "no directed contact network with asymmetric weights; law config `fast_sir_directed` added",
    "C11d_duration_redrawn_per_edge": "builder law only with weights=True; `dir_perc_noweights` config and rule-call spies added",
    "C12d_discrete_sis_scans_successors": "no directed networks / high initial prevalence in step_law; both added",
    "C13c_self_loop_gets_no_delays": "no self-loops; C13 graphs now have self-loops (30%) and directed networks (25%)",
    "C15c_falsy_chooser_answer_ignored": "all statuses were truthy strings; model `binary01` (statuses 1/0) added",
    "C15d_uniform_shortcut_with_stale_count": "caught by C16/C01 at once; C15 itself only after the multi-stage model `seir_rates` was added",
    "C19c_discrete_sir_reuses_callers_set": "discrete_SIR was never called with test_recovery in C19; optional user rules and explicit repeats added",
    "C17c_estimator_uses_noweights_builder_redrawing_duration": "caught by C11 at once; C17 itself only after the rule-call spy (duration asked once per node)",
    "C17d_percolate_rule_tested_both_directions": "C17 rules family had undirected networks only; 35% directed now",
    "C18c_predecessors_through_set": "cross-interpreter cases were too quiet; busy dense directed string-named SIS/SIRS cases added",
    "C12f_kept_infectious_nodes_stop_transmitting": "the keyed contact rule was a pure function of (u,v); an age-dependent keyed rule (per steps already infectious) added",
    "C15e_self_transition_skips_clock": "no chooser ever answered the current status; model `lazy` added, every model gets a law configuration, a bounded-horizon batch that never ends / exhausts memory is a C15 violation",
    "C13f_attempt_at_time_zero_is_falsy": "no event ever fell on t = 0.0 exactly; a fifth of the C13 cases place tmin so that one attempt does",
    "C19e_pair_based_masks_in_place": "the optional XY0/XX0 arrays were never passed; now given as full outer products",
    "C19f_get_infected_nodes_mutates_callers_digraph": "the shared graph of C19 sequences was always undirected with gamma>0 mostly; 25% directed, 25% gamma=0 now",
    "C03e_rejection_gives_up_returns_wrong_variable": "no weighted set needed ~100 rejections; C03 law config `big_star` (one heavy edge among 40 light ones) and the C16 sampled selection-law family added",
    "C03f_weight_labels_cached_across_calls": "every adapter call used a fresh graph; a priming call on the same graph object with other weights now precedes each explored run",
    "C16f_accept_test_non_strict": "the scripted seam never answered 0.0 at the acceptance test; zero-weight boundary probe (u = 0.0) added to the C16 machine",
    "C18e_index_case_from_subgraph_view": "no cross-interpreter case let the simulator choose the index case; xproc variant without initial_infecteds and with initially recovered nodes added",
    "C04e_first_row_counts_from_IC_values": "IC dicts always had exactly the nodes as keys; `ic_extra` (keys that are not nodes) added to both contagion adapters",
    "C14e_tie_with_target_recovery_order_dependent": "the SIS tables gave distinct event times by construction; tie-rich half-unit tables in 30% of the C14 fast_nonMarkov_SIS pairs (histories only; 800k runs on the unchanged tree are order-independent)",
    "C14f_sir_individual_rec_rates_in_graph_order": "ODE pairs never passed nodelist / Y0 / weights; now they do, each side with a nodelist order of its own (found genuine defect #11: pair-based adjacency mask in G.nodes() order)",
    "C09e_sis_self_loop_link_while_susceptible": "caught by C02 at once; C09 itself only after self-loops entered every SIR/SIS sweep and the oracle stopped counting the status a node enters through a self-transmission as what made it infectious",
    "C13g_user_delay_list_popped_in_place": "the keyed tables built a fresh list per call; a quarter of the C13 cases now use a memo table that hands out the same (unfiltered, pair-keyed) list object every time",
    "X1a_surplus_rows_stripped_by_time": "C05 never had an event at tmin; a quarter of the cases now do (row 0 of the arrays only)",
    "X1b_influence_set_before_status_update": "influence sets never depended on statuses; `seir_rates` influence set depends on the node's new status",
}


def main():
    rows = []
    for d in sorted(glob.glob(os.path.join(HERE, "seeded", "*", "meta.json"))):
        m = json.load(open(d))
        ts = m.get("test_suite", {})
        rows.append((m["name"], m["breaks_property"], m.get("round", 1), m.get("what", ""), m.get("needs_to_manifest", ""),
                     ", ".join(m.get("detected_by", [])) or "-", ts.get("summary", "not run yet").split(" in ")[0],
                     m.get("demo_exit_clean_tree"), m.get("demo_exit_with_patch"), MISSED_FIRST.get(m["name"], "")))
    with open(os.path.join(HERE, "seeded", "INDEX.md"), "w") as f:
        f.write("# Seeded breaking changes (written by independent sub-agents)\n\n")
        f.write("Each directory holds `patch.diff`, `demo.py` (exit 0 on the unchanged tree, 1 with the patch), `meta.json` "
                "(what it breaks, what it needs to manifest, what was run) and the agent's own notes.  Column *detected by* is the "
                "quick tier of the named checks run against a scratch copy of /repo with the patch applied "
                "(`tools_seeded.py eval`).  Column *first missed* says what had to be widened in the workload before the "
                "claimed property's own check caught it.\n\n")
        f.write("%d changes, %d detected by at least one check.\n\n" % (len(rows), sum(1 for r in rows if r[5] != "-")))
        f.write("| change | breaks | round | needs to manifest | detected by | pinned suite with patch | demo clean/patched | first missed |\n")
        f.write("|---|---|---|---|---|---|---|---|\n")
        for r in rows:
            f.write("| %s | %s | %s | %s | %s | %s | %s/%s | %s |\n" % (r[0], r[1], r[2], r[4].replace("|", "/"), r[5], r[6], r[7], r[8], r[9]))
    print("wrote INDEX.md with %d rows" % len(rows))


if __name__ == "__main__":
    main()
