#!/venv/bin/python
"""Bookkeeping for seeded breaking changes (sub-agent output -> /verif/seeded/<id>/).

  tools_seeded.py eval  <src_dir> <A|B> <name> --breaks C01 --props C01,C16   copy patch+demo, confirm the demo
                         (exit 0 on the clean tree, exit 1 with the patch) and run the listed quick checks against a
                         scratch copy with the patch applied; writes seeded/<name>/{patch.diff,demo.py,meta.json}
  tools_seeded.py tests <name>...     run the pinned test-suite in a scratch git worktree with the patch applied and record
                                      the result in meta.json (slow: ~6 min each)
"""
import json
import os
import shutil
import subprocess
import sys
import tempfile
import time

HERE = os.path.dirname(os.path.abspath(__file__))
REPO = "/repo"
PY = "/venv/bin/python"
BASE_FAIL = {"test_Animation_Dynamics_SIR_With_Vaccination_In_Lattice", "test_SIR_compact_pairwise", "test_SIR_dynamics",
             "test_SIR_heterogeneous_meanfield", "test_SIS_compact_pairwise", "test_SIS_dynamics", "test_SIS_heterogeneous_meanfield",
             "test_SIS_heterogeneous_pairwise", "test_SIS_simulations", "test_Snapshot_Dynamics_And_TransmissionTree",
             "test_basic_discrete_SIR", "test_estimate_SIR_prob_size", "test_pair_based"}


def scratch_copy(patch=None):
    tmp = tempfile.mkdtemp(prefix="eon_seed_", dir="/tmp")
    shutil.copytree(os.path.join(REPO, "EoN"), os.path.join(tmp, "EoN"), ignore=shutil.ignore_patterns("__pycache__", "*.pyc", "tests"))
    if patch:
        p = subprocess.run(["git", "apply", patch], cwd=tmp, stdout=subprocess.PIPE, stderr=subprocess.PIPE)
        if p.returncode != 0:
            shutil.rmtree(tmp)
            raise SystemExit("patch does not apply: " + p.stderr.decode())
    return tmp


def run_demo(demo, tree):
    env = dict(os.environ, MPLBACKEND="Agg", PYTHONPATH=tree, PYTHONWARNINGS="ignore", PYTHONDONTWRITEBYTECODE="1")
    p = subprocess.run([PY, demo], env=env, stdout=subprocess.PIPE, stderr=subprocess.STDOUT, cwd="/tmp", timeout=1800)
    return p.returncode, p.stdout.decode()[-600:]


def cmd_reeval(names):
    """Re-run the recorded checks of already stored changes against the current checks."""
    if not names:
        names = sorted(os.listdir(os.path.join(HERE, "seeded")))
    for name in names:
        mp = os.path.join(HERE, "seeded", name, "meta.json")
        if not os.path.exists(mp):
            continue
        m = json.load(open(mp))
        props = sorted(set(list(m.get("checks", {}).keys()) + [m["breaks_property"]]))
        cmd_eval([None, None, name, "--breaks", m["breaks_property"], "--props", ",".join(props)])


def cmd_eval(argv):
    src, which, name = argv[0], argv[1], argv[2]
    breaks = argv[argv.index("--breaks") + 1]
    props = argv[argv.index("--props") + 1].split(",")
    d = os.path.join(HERE, "seeded", name)
    os.makedirs(d, exist_ok=True)
    if src is not None:
        shutil.copy(os.path.join(src, "patch%s.diff" % which), os.path.join(d, "patch.diff"))
        shutil.copy(os.path.join(src, "demo%s.py" % which), os.path.join(d, "demo.py"))
        notes = os.path.join(src, "notes.md")
        if os.path.exists(notes):
            shutil.copy(notes, os.path.join(d, "agent_notes.md"))
    patch = os.path.join(d, "patch.diff")
    demo = os.path.join(d, "demo.py")
    clean = scratch_copy()
    mut = scratch_copy(patch)
    meta = {"name": name, "breaks_property": breaks, "source": "independent sub-agent given only the property text and a scratch worktree",
            "ran": []}
    try:
        rc0, out0 = run_demo(demo, clean)
        rc1, out1 = run_demo(demo, mut)
        meta["demo_exit_clean_tree"] = rc0
        meta["demo_exit_with_patch"] = rc1
        meta["demo_output_with_patch"] = out1
        meta["ran"].append("MPLBACKEND=Agg PYTHONPATH=<scratch copy> /venv/bin/python demo.py  (clean: exit %d, patched: exit %d)" % (rc0, rc1))
        meta["checks"] = {}
        for prop in props:
            env = dict(os.environ, EON_VERIF_REPO=mut, EON_VERIF_EVIDENCE_DIR="/dev/null")
            t0 = time.time()
            r = subprocess.run([os.path.join(HERE, "check"), prop, "--tier", "quick"], env=env, stdout=subprocess.PIPE, stderr=subprocess.PIPE)
            lines = r.stdout.decode().splitlines()
            keys = [l.strip() for l in lines if l.strip().startswith("class=")]
            meta["checks"][prop] = {"rc": r.returncode, "first": keys[:2], "wall_s": round(time.time() - t0, 1)}
            meta["ran"].append("EON_VERIF_REPO=<scratch copy + patch> ./check %s --tier quick  -> exit %d" % (prop, r.returncode))
        meta["detected_by"] = sorted(p for p, v in meta["checks"].items() if v["rc"] == 1)
    finally:
        shutil.rmtree(clean, ignore_errors=True)
        shutil.rmtree(mut, ignore_errors=True)
    old = {}
    mp = os.path.join(d, "meta.json")
    if os.path.exists(mp):
        old = json.load(open(mp))
    for k in ("needs_to_manifest", "what", "test_suite", "round"):
        if k in old:
            meta[k] = old[k]
    json.dump(meta, open(mp, "w"), indent=1, sort_keys=True)
    print(name, "demo clean/patched:", rc0, rc1, "| detected by:", meta["detected_by"], "|",
          {p: (v["rc"], v["first"][:1]) for p, v in meta["checks"].items()})


def cmd_tests(names):
    for name in names:
        d = os.path.join(HERE, "seeded", name)
        wt = tempfile.mkdtemp(prefix="eon_seedwt_", dir="/tmp")
        os.rmdir(wt)
        subprocess.run(["git", "-C", REPO, "worktree", "add", "-q", "--detach", wt, "HEAD"], check=True)
        try:
            subprocess.run(["git", "apply", os.path.join(d, "patch.diff")], cwd=wt, check=True)
            env = dict(os.environ, MPLBACKEND="Agg")
            p = subprocess.run([PY, "-m", "pytest", "-q", "-p", "no:cacheprovider", "--timeout=1800", "-n", "8", "EoN/tests"],
                               cwd=wt, env=env, stdout=subprocess.PIPE, stderr=subprocess.STDOUT)
            out = p.stdout.decode()
            failed = {l.split("::")[-1].split(" ")[0] for l in out.splitlines() if l.startswith("FAILED")}
            tail = out.strip().splitlines()[-1] if out.strip() else ""
            ok = failed == BASE_FAIL
            retried = []
            if failed - BASE_FAIL:
                # heavy machine load makes the million-node tests time out: re-run the extra failures alone, once
                for t in sorted(failed - BASE_FAIL):
                    q = subprocess.run([PY, "-m", "pytest", "-q", "-p", "no:cacheprovider", "--timeout=3600", "-k", t, "EoN/tests"],
                                       cwd=wt, env=env, stdout=subprocess.PIPE, stderr=subprocess.STDOUT)
                    retried.append((t, q.returncode))
                    if q.returncode == 0:
                        failed.discard(t)
                ok = failed == BASE_FAIL
                tail += " ; re-run alone: %r" % (retried,)
            mp = os.path.join(d, "meta.json")
            meta = json.load(open(mp))
            meta["test_suite"] = {"summary": tail, "same_failing_set_as_baseline": ok, "extra_failures": sorted(failed - BASE_FAIL),
                                  "cmd": "pytest -q -p no:cacheprovider --timeout=1800 -n 8 EoN/tests (scratch worktree + patch)"}
            json.dump(meta, open(mp, "w"), indent=1, sort_keys=True)
            print(name, tail, "baseline-equivalent:", ok, flush=True)
        finally:
            subprocess.run(["git", "-C", REPO, "worktree", "remove", "--force", wt])


if __name__ == "__main__":
    if sys.argv[1] == "eval":
        cmd_eval(sys.argv[2:])
    elif sys.argv[1] == "tests":
        cmd_tests(sys.argv[2:])
    elif sys.argv[1] == "reeval":
        cmd_reeval(sys.argv[2:])
