#!/venv/bin/python
"""Bookkeeping for behaviour-preserving refactorings (changes that must NOT alarm).

  tools_equivalent.py eval <src_dir> <k> <name>    copy patch<k>.diff to equivalent/<name>/patch.diff, run the quick tier of
                                                   EVERY check against a scratch copy with the patch and record the exit codes
"""
import json
import os
import shutil
import subprocess
import sys
import time

HERE = os.path.dirname(os.path.abspath(__file__))
sys.path.insert(0, HERE)
ALL = ["C01", "C02", "C03", "C04", "C05", "C09", "C10", "C11", "C12", "C13", "C14", "C15", "C16", "C17", "C18", "C19"]


def main():
    src, k, name = sys.argv[2], sys.argv[3], sys.argv[4]
    d = os.path.join(HERE, "equivalent", name)
    os.makedirs(d, exist_ok=True)
    shutil.copy(os.path.join(src, "patch%s.diff" % k), os.path.join(d, "patch.diff"))
    if os.path.exists(os.path.join(src, "notes.md")):
        shutil.copy(os.path.join(src, "notes.md"), os.path.join(d, "agent_notes.md"))
    env = dict(os.environ, EON_VERIF_MUTANT_REPLAY="0")
    p = subprocess.run([os.path.join(HERE, "check"), "mutants", "--patch", os.path.join(d, "patch.diff"), "--props", ",".join(ALL)],
                       stdout=subprocess.PIPE, stderr=subprocess.PIPE, env=env)
    r = json.loads(p.stdout.decode())
    meta = {"name": name, "kind": "behaviour-preserving refactoring written by an independent sub-agent (no access to /verif)",
            "expected": "every check exits 0", "error": r.get("error"),
            "checks": {c: {"rc": v["rc"], "first": v.get("first"), "wall_s": v.get("wall_s")} for c, v in r["props"].items()},
            "alarms": sorted(c for c, v in r["props"].items() if v["rc"] != 0)}
    json.dump(meta, open(os.path.join(d, "meta.json"), "w"), indent=1, sort_keys=True)
    print(name, "alarms:", meta["alarms"], {c: (v["rc"], v.get("first")) for c, v in r["props"].items() if v["rc"] != 0})


if __name__ == "__main__":
    main()
