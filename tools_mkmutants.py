#!/venv/bin/python
"""Regenerates /verif/mutants/*.patch (sensitivity self-test, DESIGN.md section 6) from the
edit list below, as unified diffs against /repo's current EoN sources."""
import difflib
import os

REPO = os.environ.get("EON_VERIF_REPO", "/repo")
OUT = os.path.join(os.path.dirname(os.path.abspath(__file__)), "mutants")

M = [
 ("m01_sir_stale_link_on_last_removal", "C01,C16", "EoN/simulation.py",
  "            for nbr in G.neighbors(recovering_node):\n                if status[nbr] == 'S':\n                    IS_links.remove((recovering_node, nbr))\n            times.append(t)\n            S.append(S[-1])",
  "            for nbr in G.neighbors(recovering_node):\n                if status[nbr] == 'S' and len(IS_links)>1:\n                    IS_links.remove((recovering_node, nbr))\n            times.append(t)\n            S.append(S[-1])"),
 ("m02_sis_no_relink_of_last_neighbor", "C02", "EoN/simulation.py",
  "                else:\n                    IS_links.update((nbr, recovering_node), weight_increment = edgeweight(recovering_node, nbr))",
  "                elif len(infecteds)>1:\n                    IS_links.update((nbr, recovering_node), weight_increment = edgeweight(recovering_node, nbr))"),
 ("m03_simple_directed_weight_orientation", "C03,C16", "EoN/simulation.py",
  "potential_transitions[transition].update((pred, modified_node), weight_increment = get_weight[transition][(pred, modified_node)])",
  "potential_transitions[transition].update((pred, modified_node), weight_increment = get_weight[transition][(modified_node, pred)] if (modified_node, pred) in get_weight[transition] else get_weight[transition][(pred, modified_node)])"),
 ("m04_sir_transmission_must_precede_recovery_strictly", "C11", "EoN/simulation.py",
  "if inf_time<= rec_time[target] and inf_time < pred_inf_time[v] and inf_time<=Q.tmax:",
  "if inf_time< rec_time[target] and inf_time < pred_inf_time[v] and inf_time<=Q.tmax:"),
 ("m05_complex_forget_rerate_changed_node", "C15", "EoN/simulation.py",
  "        weight = rate_function(G, node, status, parameters)\n        nodes_by_rate.insert(node, weight = weight)\n",
  "        if len(nodes_by_rate)>1:\n            weight = rate_function(G, node, status, parameters)\n            nodes_by_rate.insert(node, weight = weight)\n"),
 ("m06_listdict_max_weight_becomes_min", "C16,C01", "EoN/simulation.py",
  "        self.max_weight = max(C.keys())",
  "        self.max_weight = min(C.keys())"),
 ("m07_truncated_exponential_not_truncated", "C01", "EoN/simulation.py",
  "    L = int(t/T)\n    return t - L*T",
  "    L = int(t/T)\n    return t - L*T if L<2 else t"),
 ("m08_sis_chain_filter_uses_source", "C13", "EoN/simulation.py",
  "    trans_times = [time for time in future_transmissions if time> rec_time[target]]",
  "    trans_times = [time for time in future_transmissions if time> rec_time[source]]"),
 ("m09_node_status_strictly_before", "C10", "EoN/simulation_investigation.py",
  "        changetimes = self._node_history_[node][0]\n        number_swaps = len([changetime for changetime in changetimes if changetime<= time])\n        status = self._node_history_[node][1][number_swaps-1]\n        return status",
  "        changetimes = self._node_history_[node][0]\n        number_swaps = max(1,len([changetime for changetime in changetimes if changetime< time]))\n        status = self._node_history_[node][1][number_swaps-1]\n        return status"),
 ("m10_out_component_drops_sources", "C17", "EoN/simulation.py",
  "    reachable_nodes = set().union(source_nodes)\n",
  "    reachable_nodes = set()\n"),
 ("m11_rho_sample_from_set", "C18", "EoN/simulation.py",
  "        initial_infecteds=random.sample(list(G), initial_number)\n    elif G.has_node(initial_infecteds):\n        initial_infecteds=[initial_infecteds]\n        \n    I = [len(initial_infecteds)]\n    S = [G.order()-I[0]]\n    times = [tmin]",
  "        initial_infecteds=random.sample(list(set(G)), initial_number)\n    elif G.has_node(initial_infecteds):\n        initial_infecteds=[initial_infecteds]\n        \n    I = [len(initial_infecteds)]\n    S = [G.order()-I[0]]\n    times = [tmin]"),
 ("m12_gillespie_caches_on_graph", "C19", "EoN/simulation.py",
  "    tau = float(tau)  #just to avoid integer division problems in python 2.\n",
  "    tau = float(tau)  #just to avoid integer division problems in python 2.\n    G.graph['_last_tau'] = tau\n"),
 ("m13_sis_transmissions_record_wrong_source_on_reinfection", "C09", "EoN/simulation.py",
  "        status[target] = 'I'\n        transmissions.append((time, source, target))\n        I.append(I[-1]+1) #one more infected",
  "        status[target] = 'I'\n        transmissions.append((time, source if not infection_times[target] else target, target))\n        I.append(I[-1]+1) #one more infected"),
 ("m14_discrete_recovered_row_offset", "C05,C12,C04", "EoN/simulation.py",
  "    S = [N-len(initial_infecteds)-nR0]\n    I = [len(initial_infecteds)]\n    R = [nR0]",
  "    S = [N-len(initial_infecteds)]\n    I = [len(initial_infecteds)]\n    R = [0]"),
 ("m15_fast_sir_label_dependent_tiebreak", "C14", "EoN/simulation.py",
  "        suscep_neighbors = [v for v in G.neighbors(target) if status[v]=='S']",
  "        suscep_neighbors = [v for v in G.neighbors(target) if status[v]=='S' and not (isinstance(v,int) and isinstance(target,int) and v==target+3)]"),
 ("m16_percolate_skips_last_edge_when_dense", "C12,C17", "EoN/simulation.py",
  "    for edge in G.edges():\n        if random.random()<p:\n            H.add_edge(*edge)\n    return H",
  "    for edge in G.edges():\n        if random.random()<p and (H.number_of_edges()<5 or p<0.5):\n            H.add_edge(*edge)\n    return H"),
]


def main():
    os.makedirs(OUT, exist_ok=True)
    for f in os.listdir(OUT):
        if f.endswith(".patch"):
            os.remove(os.path.join(OUT, f))
    for name, props, path, old, new in M:
        src = open(os.path.join(REPO, path)).read()
        if src.count(old) != 1:
            raise SystemExit("mutant %s: anchor occurs %d times" % (name, src.count(old)))
        dst = src.replace(old, new)
        diff = difflib.unified_diff(src.splitlines(True), dst.splitlines(True), "a/" + path, "b/" + path, n=3)
        with open(os.path.join(OUT, name + ".patch"), "w") as f:
            f.write("# props: %s\n" % props)
            f.write("".join(diff))
    print("wrote %d mutants" % len(M))


if __name__ == "__main__":
    main()
